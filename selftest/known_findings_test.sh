#!/bin/bash
# Exercises the known-findings path (no `known` entry exists in the committed file, so it would otherwise
# never run): on a scratch edit of /repo that re-introduces the nth/nth_back defect,
#   1. with the finding listed as `known` in a scratch root, C05 prints KNOWN-FINDING lines and exits 0;
#   2. with a second, unlisted C05 defect added (seeded C05-m2), it exits 1 with a VIOLATION line;
#   3. with the committed file (entry `fixed`), the first defect alone is a VIOLATION again.
# /repo is restored on exit. Evidence / replays of these runs go to the scratch root, not to /verif.
set -u
if [ -n "$(git -C /repo status --porcelain)" ]; then echo "refusing: /repo not clean"; exit 2; fi
trap 'git -C /repo checkout -- .; rm -rf /verif/target/tmp/kf' EXIT
ROOT=/verif/target/tmp/kf; mkdir -p $ROOT
cat > $ROOT/known_findings.json <<'JSON'
{"findings":[
 {"property":"C05","status":"known","key":"I2-observed-after-drop@it_nth","what":"nth drops the skipped range before advancing"},
 {"property":"C05","status":"known","key":"I2-observed-after-drop@it_nth_back","what":"nth_back drops the skipped range before shrinking"},
 {"property":"C05","status":"known","key":"I1-double-drop@it_nth","what":"the same defect seen with zero-sized elements (counted, no identity)"},
 {"property":"C05","status":"known","key":"I1-double-drop@it_nth_back","what":"the same defect seen with zero-sized elements (counted, no identity)"}
]}
JSON
python3 - <<'PY'
p='/repo/src/iter.rs'; s=open(p).read()
a="        let skipped = self.index..next_index;\n        self.index = next_index;\n\n        unsafe {\n            ptr::drop_in_place(self.array.get_unchecked_mut(skipped));\n        }"
b="        unsafe {\n            ptr::drop_in_place(self.array.get_unchecked_mut(self.index..next_index));\n        }\n        self.index = next_index;"
assert a in s; s=s.replace(a,b)
a2="        let skipped = next_back..self.index_back;\n        self.index_back = next_back;\n\n        unsafe {\n            ptr::drop_in_place(self.array.get_unchecked_mut(skipped));\n        }"
b2="        unsafe {\n            ptr::drop_in_place(self.array.get_unchecked_mut(next_back..self.index_back));\n        }\n        self.index_back = next_back;"
assert a2 in s; s=s.replace(a2,b2); open(p,'w').write(s)
PY
cd /verif/sim && cargo build --offline --profile sim >/dev/null 2>&1 || { echo "build failed"; exit 2; }
echo "== 1. defect listed as known (scratch root)"; GASIM_ROOT=$ROOT /verif/target/sim/gasim check C05 quick | grep -E "KNOWN-FINDING|VIOLATION|OK property"; echo "exit=${PIPESTATUS[0]}"
echo "== 2. plus an unlisted defect (seeded C05-m2)"; git -C /repo apply /verif/seeded/C05-m2/patch.diff && cargo build --offline --profile sim >/dev/null 2>&1
GASIM_ROOT=$ROOT /verif/target/sim/gasim check C05 quick | grep -E "KNOWN-FINDING|VIOLATION|OK property" | cut -c1-200; echo "exit=${PIPESTATUS[0]}"
echo "== 3. committed file (entry is 'fixed', suppresses nothing), first defect only"; git -C /repo checkout -- . ; python3 - <<'PY'
p='/repo/src/iter.rs'; s=open(p).read()
a="        let skipped = self.index..next_index;\n        self.index = next_index;\n\n        unsafe {\n            ptr::drop_in_place(self.array.get_unchecked_mut(skipped));\n        }"
b="        unsafe {\n            ptr::drop_in_place(self.array.get_unchecked_mut(self.index..next_index));\n        }\n        self.index = next_index;"
s=s.replace(a,b); open(p,'w').write(s)
PY
cargo build --offline --profile sim >/dev/null 2>&1
mkdir -p $ROOT/3; cp /verif/known_findings.json $ROOT/3/
GASIM_ROOT=$ROOT/3 /verif/target/sim/gasim check C05 quick | grep -E "KNOWN-FINDING|VIOLATION|OK property" | cut -c1-200; echo "exit=${PIPESTATUS[0]}"
