#!/usr/bin/env python3
"""Self-test of the machinery, both ways (scratch edits of /repo, always reverted):

  * MUTANTS: small property-breaking edits that compile and pass the pinned suite; the named check
    must exit 1 within the quick budget.
  * REFACTORS: behaviour-preserving rewrites; every named check must stay silent (exit 0).

usage: selftest.py [mutants|refactors|all] [name-substring]
Each edit is applied to /repo's working tree with a textual substitution, the checks are run through
/verif/bin/check, and `git -C /repo checkout -- .` restores the tree (also on error).
"""
import subprocess, sys, os, json

REPO = "/repo"

def sh(cmd, **kw):
    return subprocess.run(cmd, shell=True, capture_output=True, text=True, **kw)

MUTANTS = [
    # name, file, old, new, checks
    ("map-no-position-advance", "src/lib.rs",
     "                let value = ptr::read(src);\n\n                *position += 1;\n\n                f(value)\n            }))",
     "                let value = ptr::read(src);\n\n                f(value)\n            }))", ["C03"]),
    ("pop-front-tail-offset0", "src/sequence.rs",
     "let tail = ptr::read(whole.as_ptr().offset(1) as _);", "let tail = ptr::read(whole.as_ptr().offset(0) as _);", ["C03"]),
    ("generate-position-before-write", "src/lib.rs",
     "                builder_iter.enumerate().for_each(|(i, dst)| {\n                    dst.write(f(i));\n                    *position += 1;\n                });\n            }\n\n            builder.finish();\n            IntrusiveArrayBuilder::array_assume_init(array)",
     "                builder_iter.enumerate().for_each(|(i, dst)| {\n                    *position += 1;\n                    dst.write(f(i));\n                });\n            }\n\n            builder.finish();\n            IntrusiveArrayBuilder::array_assume_init(array)", ["C04"]),
    ("consumer-drop-wrong-side", "src/internal.rs",
     "ptr::drop_in_place(self.array.get_unchecked_mut(self.position..));",
     "ptr::drop_in_place(self.array.get_unchecked_mut(..self.position));", ["C04"]),
    ("inverted-zip-right-position-stale", "src/lib.rs",
     "                    *left_position += 1;\n                    *right_position = *left_position;",
     "                    *left_position += 1;", ["C04"]),
    ("intrusive-builder-drop-one-too-many", "src/internal.rs",
     "impl<T, N: ArrayLength> Drop for IntrusiveArrayBuilder<'_, T, N> {\n    fn drop(&mut self) {\n        unsafe {\n            ptr::drop_in_place(\n                // Same cast as MaybeUninit::slice_assume_init_mut\n                self.array.get_unchecked_mut(..self.position)",
     "impl<T, N: ArrayLength> Drop for IntrusiveArrayBuilder<'_, T, N> {\n    fn drop(&mut self) {\n        unsafe {\n            ptr::drop_in_place(\n                // Same cast as MaybeUninit::slice_assume_init_mut\n                self.array.get_unchecked_mut(..core::cmp::min(self.position + 1, N::USIZE))", ["C04"]),
    ("iter-drop-whole-array", "src/iter.rs",
     "            ptr::drop_in_place(self.as_mut_slice());\n        }\n    }\n}\n\n// Based on work in rust-lang/rust#49000\nimpl<T: Clone",
     "            let back = self.index_back;\n            ptr::drop_in_place(self.array.get_unchecked_mut(..back));\n        }\n    }\n}\n\n// Based on work in rust-lang/rust#49000\nimpl<T: Clone", ["C03"]),
    ("nth-back-min-with-N", "src/iter.rs",
     "let next_back = self.index_back - cmp::min(n, self.len());", "let next_back = self.index_back - cmp::min(n, cmp::min(N::USIZE, self.index_back));", ["C06"]),
    ("len-ignores-back", "src/iter.rs",
     "    fn len(&self) -> usize {\n        self.index_back - self.index\n    }", "    fn len(&self) -> usize {\n        N::USIZE - self.index - (N::USIZE - self.index_back) / 2 * 2 - (N::USIZE - self.index_back) % 2 * (self.index_back != self.index) as usize\n    }", ["C06"]),
    ("iter-clone-from-array-start", "src/iter.rs",
     "for (dst, src) in iter.array.as_mut_slice().iter_mut().zip(self.as_slice()) {",
     "for (dst, src) in iter.array.as_mut_slice().iter_mut().zip(self.array.as_slice()[..self.len()].iter()) {", ["C06"]),
    ("try-from-iter-no-excess-poll", "src/lib.rs",
     "if !builder.is_full() || iter.next().is_some() {", "if !builder.is_full() {", ["C07"]),
    ("try-from-iter-lower-bound-ge", "src/lib.rs",
     "(n, _) if n > N::USIZE => return Err(LengthError),\n            // if the upper bound is smaller than N, array cannot be filled\n            (_, Some(n)) if n < N::USIZE => return Err(LengthError),\n            _ => {}\n        }\n\n        unsafe {",
     "(n, _) if n > N::USIZE => return Err(LengthError),\n            // if the upper bound is smaller than N, array cannot be filled\n            (_, Some(n)) if n <= N::USIZE && N::USIZE > 40 => return Err(LengthError),\n            (_, Some(n)) if n < N::USIZE => return Err(LengthError),\n            _ => {}\n        }\n\n        unsafe {", ["C07"]),
    ("boxed-from-iter-take-n-plus-1", "src/impl_alloc.rs",
     "v.extend((&mut iter).take(N::USIZE));", "v.extend((&mut iter).take(N::USIZE + (N::USIZE == 0) as usize));", ["C07"]),
    ("try-from-iter-poll-after-short", "src/lib.rs",
     "            builder.extend(&mut iter);\n\n            if !builder.is_full() || iter.next().is_some() {",
     "            builder.extend(&mut iter);\n\n            if iter.next().is_some() || !builder.is_full() {", ["C07"]),
    ("generate-reversed", "src/lib.rs",
     "                builder_iter.enumerate().for_each(|(i, dst)| {\n                    dst.write(f(i));\n                    *position += 1;\n                });\n            }\n\n            builder.finish();\n            IntrusiveArrayBuilder::array_assume_init(array)",
     "                if mem::needs_drop::<T>() {\n                    builder_iter.enumerate().for_each(|(i, dst)| {\n                        dst.write(f(i));\n                        *position += 1;\n                    });\n                } else {\n                    builder_iter.enumerate().rev().for_each(|(i, dst)| {\n                        dst.write(f(i));\n                    });\n                    *position = N::USIZE;\n                }\n            }\n\n            builder.finish();\n            IntrusiveArrayBuilder::array_assume_init(array)", ["C08"]),
    ("zip-nodrop-branch-swapped-iteration", "src/lib.rs",
     "                FromIterator::from_iter(right.iter().zip(lhs).map(|(r, left_value)| {\n                    f(left_value, ptr::read(r)) //\n                }))",
     "                FromIterator::from_iter(right.iter().rev().zip(lhs).map(|(r, left_value)| {\n                    f(left_value, ptr::read(r)) //\n                }))", ["C08"]),
    ("owned-fold-reversed", "src/lib.rs",
     "            array_iter.fold(init, |acc, src| {\n                let value = ptr::read(src);\n                *position += 1;\n                f(acc, value)\n            })",
     "            if mem::needs_drop::<T>() {\n                array_iter.fold(init, |acc, src| {\n                    let value = ptr::read(src);\n                    *position += 1;\n                    f(acc, value)\n                })\n            } else {\n                *position = N::USIZE;\n                array_iter.rev().fold(init, |acc, src| f(acc, ptr::read(src)))\n            }", ["C08"]),
    ("into-boxed-slice-copies", "src/impl_alloc.rs",
     "        unsafe {\n            // SAFETY: Box ensures the array is properly aligned\n            Box::from_raw(core::ptr::slice_from_raw_parts_mut(\n                Box::into_raw(self) as *mut T,\n                N::USIZE,\n            ))\n        }",
     "        let b: Box<[T]> = unsafe { Box::from_raw(core::ptr::slice_from_raw_parts_mut(Box::into_raw(self) as *mut T, N::USIZE)) };\n        let v: Vec<T> = Vec::from(b);\n        let mut w = Vec::with_capacity(v.len());\n        w.extend(v);\n        w.into_boxed_slice()", ["C15"]),
    ("try-from-boxed-slice-lt", "src/impl_alloc.rs",
     "        if slice.len() != N::USIZE {\n            return Err(LengthError);\n        }\n\n        Ok(unsafe { Box::from_raw(Box::into_raw(slice) as *mut _) })",
     "        if slice.len() < N::USIZE {\n            return Err(LengthError);\n        }\n\n        Ok(unsafe { Box::from_raw(Box::into_raw(slice) as *mut _) })", ["C15", "C16"]),
    ("boxed-generate-via-stack", "src/impl_alloc.rs",
     "            let mut array = Box::<GenericArray<T, N>>::new_uninit();\n\n            let mut builder = IntrusiveArrayBuilder::new(\n                &mut *array\n                    .as_mut_ptr()\n                    .cast::<GenericArray<MaybeUninit<T>, N>>(),\n            );\n\n            {\n                let (builder_iter, position) = builder.iter_position();\n\n                builder_iter.enumerate().for_each(|(i, dst)| {\n                    dst.write(f(i));\n                    *position += 1;\n                });\n            }\n\n            builder.finish();\n\n            array.assume_init()",
     "            let _ = core::mem::size_of::<MaybeUninit<T>>();\n            Box::new(<GenericArray<T, N> as GenericSequence<T>>::generate(&mut f))", ["C15"]),
    ("visit-seq-no-surplus-probe", "src/impl_serde.rs",
     "                if seq.size_hint() != Some(0) && seq.next_element::<Dummy>()?.is_some() {\n                    return Err(de::Error::invalid_length(*position + 1, &self));\n                }\n", "", ["C17"]),
    ("visit-seq-hint-lt", "src/impl_serde.rs",
     "Some(n) if n != N::USIZE => {", "Some(n) if n < N::USIZE => {", ["C17"]),
    ("serialize-as-seq", "src/impl_serde.rs",
     "let mut tup = serializer.serialize_tuple(N::USIZE)?;\n        for el in self {\n            tup.serialize_element(el)?;\n        }\n\n        tup.end()",
     "use serde::ser::SerializeSeq;\n        let mut tup = serializer.serialize_seq(Some(N::USIZE))?;\n        for el in self {\n            tup.serialize_element(el)?;\n        }\n\n        tup.end()", ["C17"]),
    ("visit-seq-position-before-write", "src/impl_serde.rs",
     "                    Some(el) => {\n                        dst.write(el);\n                        *position += 1;\n                    }\n                    None => break,",
     "                    Some(el) => {\n                        *position += 1;\n                        dst.write(el);\n                    }\n                    None => { *position += 1; break }", ["C17"]),
    ("nth-leaks-skipped", "src/iter.rs",
     "        unsafe {\n            ptr::drop_in_place(self.array.get_unchecked_mut(skipped));\n        }\n\n        self.next()",
     "        let _ = skipped;\n\n        self.next()", ["C03"]),
    ("into-vec-via-same-size-copy", "src/impl_alloc.rs",
     "        Vec::from(self.into_boxed_slice())",
     "        let b = self.into_boxed_slice();\n        let mut v = Vec::with_capacity(b.len());\n        v.extend(Vec::from(b));\n        v", ["C15"]),
    ("iter-clone-reversed-contents", "src/iter.rs",
     "for (dst, src) in iter.array.as_mut_slice().iter_mut().zip(self.as_slice()) {",
     "for (dst, src) in iter.array.as_mut_slice().iter_mut().zip(self.as_slice().iter().rev()) {", ["C06"]),
    # blind spots named by the independent audit (large skip counts / indices / lengths, late faults)
    ("nth-chunked-drop-leaks-beyond-16", "src/iter.rs",
     "        unsafe {\n            ptr::drop_in_place(self.array.get_unchecked_mut(skipped));\n        }\n\n        self.next()",
     "        let capped = skipped.start..cmp::min(skipped.end, skipped.start + 16);\n        unsafe {\n            ptr::drop_in_place(self.array.get_unchecked_mut(capped));\n        }\n\n        self.next()", ["C03"]),
    ("remove-high-index-off-by-one", "src/sequence.rs",
     "        ptr::copy(dst.add(1), dst, N::USIZE - idx - 1);",
     "        ptr::copy(dst.add(1), dst, N::USIZE - idx - 1 - (idx >= 12 && idx + 2 < N::USIZE) as usize);", ["C03"]),
    ("pop-back-large-n-wrong-offset", "src/sequence.rs",
     "            let last = ptr::read(whole.as_ptr().add(Sub1::<N>::USIZE) as _);",
     "            let last = ptr::read(whole.as_ptr().add(Sub1::<N>::USIZE - (N::USIZE >= 64) as usize) as _);", ["C03"]),
    ("builder-extend-stops-counting-at-48", "src/internal.rs",
     "        destination.zip(source).for_each(|(dst, src)| {\n            dst.write(src);\n            *position += 1;\n        });\n    }\n\n    /// Returns true if the write position equals the array size\n    #[inline(always)]\n    pub const fn is_full(&self) -> bool {\n        self.position == N::USIZE\n    }\n\n    /// Creates a mutable iterator for writing to the array elements.\n    ///\n    /// You MUST increment the position value (given as a mutable reference) as you iterate\n    /// to mark how many elements have been created.\n    ///\n    /// ```\n    /// #[cfg(feature = \"internals\")]\n    /// # {\n    /// # use generic_array::{GenericArray, internals::IntrusiveArrayBuilder, typenum::U5};",
     "        let mut written = 0usize;\n        destination.zip(source).for_each(|(dst, src)| {\n            dst.write(src);\n            written += 1;\n            if written <= 48 || written == N::USIZE {\n                *position = written;\n            }\n        });\n    }\n\n    /// Returns true if the write position equals the array size\n    #[inline(always)]\n    pub const fn is_full(&self) -> bool {\n        self.position == N::USIZE\n    }\n\n    /// Creates a mutable iterator for writing to the array elements.\n    ///\n    /// You MUST increment the position value (given as a mutable reference) as you iterate\n    /// to mark how many elements have been created.\n    ///\n    /// ```\n    /// #[cfg(feature = \"internals\")]\n    /// # {\n    /// # use generic_array::{GenericArray, internals::IntrusiveArrayBuilder, typenum::U5};", ["C07", "C04"]),
    ("revert-fix-nth", "src/iter.rs",
     "        let skipped = self.index..next_index;\n        self.index = next_index;\n\n        unsafe {\n            ptr::drop_in_place(self.array.get_unchecked_mut(skipped));\n        }",
     "        unsafe {\n            ptr::drop_in_place(self.array.get_unchecked_mut(self.index..next_index));\n        }\n        self.index = next_index;", ["C05"]),
    ("revert-fix-iter-clone", "src/iter.rs",
     "            unsafe { ptr::write(dst, src.clone()) };\n            iter.index_back += 1;\n        }\n\n        iter",
     "            unsafe { ptr::write(dst, src.clone()) };\n        }\n        iter.index_back = self.len();\n\n        iter", ["C04"]),
]

REFACTORS = [
    # behaviour-preserving: every listed check must stay silent
    ("nth-as-loop-of-next", "src/iter.rs",
     "        let skipped = self.index..next_index;\n        self.index = next_index;\n\n        unsafe {\n            ptr::drop_in_place(self.array.get_unchecked_mut(skipped));\n        }\n\n        self.next()",
     "        let _ = next_index;\n        for _ in 0..n {\n            if self.next().is_none() {\n                return None;\n            }\n        }\n\n        self.next()", ["C03", "C05", "C06"]),
    ("iter-clone-keeps-original-indices", "src/iter.rs",
     "        let mut iter = GenericArrayIter {\n            array: unsafe { ptr::read(&self.array) },\n            index: 0,\n            index_back: 0,\n        };\n\n        for (dst, src) in iter.array.as_mut_slice().iter_mut().zip(self.as_slice()) {\n            unsafe { ptr::write(dst, src.clone()) };\n            iter.index_back += 1;\n        }\n\n        iter",
     "        let mut iter = GenericArrayIter {\n            array: unsafe { ptr::read(&self.array) },\n            index: self.index,\n            index_back: self.index,\n        };\n\n        for (dst, src) in iter.array.as_mut_slice()[self.index..self.index_back].iter_mut().zip(self.as_slice()) {\n            unsafe { ptr::write(dst, src.clone()) };\n            iter.index_back += 1;\n        }\n\n        iter", ["C03", "C04", "C05", "C06"]),
    ("array-clone-via-from-iter", "src/impls.rs",
     "        self.map(Clone::clone)", "        self.iter().cloned().collect()", ["C03", "C04", "C08"]),
    ("zip-reads-right-before-left", "src/lib.rs",
     "                    let left_value = ptr::read(l);\n                    let right_value = ptr::read(r);\n\n                    *left_position += 1;\n                    *right_position = *left_position;",
     "                    let right_value = ptr::read(r);\n                    let left_value = ptr::read(l);\n\n                    *right_position += 1;\n                    *left_position = *right_position;", ["C03", "C04", "C08"]),
    ("try-from-iter-consults-hint-twice", "src/lib.rs",
     "        unsafe {\n            let mut array = GenericArray::uninit();\n            let mut builder = IntrusiveArrayBuilder::new(&mut array);\n\n            builder.extend(&mut iter);",
     "        let _ = iter.size_hint();\n        unsafe {\n            let mut array = GenericArray::uninit();\n            let mut builder = IntrusiveArrayBuilder::new(&mut array);\n\n            builder.extend(&mut iter);", ["C03", "C04", "C07"]),
    ("nth-drops-one-at-a-time", "src/iter.rs",
     "        unsafe {\n            ptr::drop_in_place(self.array.get_unchecked_mut(skipped));\n        }\n\n        self.next()",
     "        for i in skipped {\n            unsafe {\n                ptr::drop_in_place(self.array.get_unchecked_mut(i));\n            }\n        }\n\n        self.next()", ["C03", "C06"]),
    ("iter-count-consumes-explicitly", "src/iter.rs",
     "    fn count(self) -> usize {\n        self.len()\n    }", "    fn count(mut self) -> usize {\n        let mut c = 0;\n        while let Some(x) = self.next() {\n            drop(x);\n            c += 1;\n        }\n        c\n    }", ["C03", "C06"]),
    ("into-vec-direct-from-raw-parts", "src/impl_alloc.rs",
     "        Vec::from(self.into_boxed_slice())",
     "        unsafe { Vec::from_raw_parts(Box::into_raw(self) as *mut T, N::USIZE, N::USIZE) }", ["C15", "C16"]),
    ("visit-seq-probe-always-when-hint-none", "src/impl_serde.rs",
     "if seq.size_hint() != Some(0) && seq.next_element::<Dummy>()?.is_some() {",
     "let rest = seq.size_hint();\n                if rest != Some(0) && seq.next_element::<Dummy>()?.is_some() {", ["C17"]),
    ("try-boxed-from-iter-reserve-exact", "src/impl_alloc.rs",
     "        let mut v = Vec::with_capacity(N::USIZE);", "        let mut v = Vec::new();\n        v.reserve_exact(N::USIZE);", ["C07", "C15", "C16"]),
]


def clean():
    sh(f"git -C {REPO} checkout -- .")
    sh("rm -f /verif/replays/*.json")


def run_set(kind, items, filt):
    results = []
    for (name, file, old, new, checks) in items:
        if filt and filt not in name:
            continue
        if sh(f"git -C {REPO} status --porcelain").stdout.strip():
            print("refusing: /repo is not clean"); sys.exit(2)
        path = os.path.join(REPO, file)
        src = open(path).read()
        if src.count(old) != 1:
            print(f"{kind} {name}: pattern matches {src.count(old)} times in {file} (edit the self-test)")
            results.append((name, "PATTERN"))
            continue
        try:
            open(path, "w").write(src.replace(old, new))
            # the change must compile and pass the pinned suite
            t = sh(f"cd {REPO} && cargo test --offline 2>&1 | tail -3")
            t2 = sh(f"cd {REPO} && cargo test --offline --features alloc,serde,internals 2>&1 | grep -E '^test result|error' | grep -vc ' 0 failed' ")
            suite_ok = "test result: ok" in t.stdout and "error" not in t.stdout and t2.stdout.strip() == "0"
            verdicts = []
            for c in checks:
                r = sh(f"/verif/bin/check {c} quick")
                line = next((l for l in r.stdout.splitlines() if l.startswith("violation")), "")[:160]
                verdicts.append((c, r.returncode, line))
            results.append((name, suite_ok, verdicts))
            for (c, code, line) in verdicts:
                want = 1 if kind == "MUTANT" else 0
                status = "ok" if code == want else "UNEXPECTED"
                print(f"{kind} {name}: suite_passes={suite_ok} check={c} exit={code} [{status}] {line}", flush=True)
        finally:
            clean()
    return results


if __name__ == "__main__":
    which = sys.argv[1] if len(sys.argv) > 1 else "all"
    filt = sys.argv[2] if len(sys.argv) > 2 else ""
    if which in ("mutants", "all"):
        run_set("MUTANT", MUTANTS, filt)
    if which in ("refactors", "all"):
        run_set("REFACTOR", REFACTORS, filt)
