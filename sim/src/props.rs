//! Per-property trace generators: what histories and faults a run of each check draws.
//! Everything is derived from the run's seed through the private PRNG.

use crate::elem::ElemKind;
use crate::gen::{LENS, NESTS, N_DENSE};
use crate::ledger::Seam;
use crate::ops::OpKind::*;
use crate::ops::*;
use crate::rng::Rng;
use crate::run::Trace;

/// slot argument meaning "the most recently created object of that kind"
pub const LAST: u32 = 1000;

fn len_idx(r: &mut Rng) -> u32 {
    // 84% dense lane 0..=8, 14% sparse lane below 64, 1.6% large (64..=1024), 0.4% very large (above 1024:
    // a run that holds such an array costs about as much as a hundred ordinary runs)
    let x = r.below(1000);
    if x < 840 {
        r.below(N_DENSE as u32)
    } else if x < 980 {
        let small: Vec<u32> = (N_DENSE as u32..LENS.len() as u32).filter(|&i| LENS[i as usize] < 64).collect();
        r.pick(&small)
    } else if x < 996 || cfg!(miri) {
        // (under Miri the recording allocator's table is small and an interpreted 4096-element run takes minutes:
        // the Miri lane stays at or below 1024)
        let big: Vec<u32> = (N_DENSE as u32..LENS.len() as u32).filter(|&i| LENS[i as usize] >= 64 && LENS[i as usize] <= 1024).collect();
        r.pick(&big)
    } else {
        let huge: Vec<u32> = (N_DENSE as u32..LENS.len() as u32).filter(|&i| LENS[i as usize] > 1024).collect();
        r.pick(&huge)
    }
}

fn slot(r: &mut Rng) -> u32 {
    if r.chance(1, 2) {
        LAST + r.below(2)
    } else {
        r.below(4)
    }
}

fn elem_kind(r: &mut Rng, tr: u32, zt: u32, pl: u32) -> ElemKind {
    let x = r.below(tr + zt + pl);
    if x < tr {
        // one in six tracked runs uses the over-aligned shell
        if r.chance(1, 6) {
            ElemKind::Al
        } else {
            ElemKind::Tr
        }
    } else if x < tr + zt {
        ElemKind::Zt
    } else if r.chance(1, 4) {
        // zero-sized and plain
        ElemKind::Zp
    } else {
        ElemKind::Pl
    }
}

/// random arguments in meaningful ranges for each operation kind (honest parameters:
/// sources deliver exactly N with truthful hints; deserializer input is well formed)
pub fn gen_op(r: &mut Rng, kind: OpKind) -> Op {
    let args: Vec<u32> = match kind {
        Generate => vec![len_idx(r), r.below(3)],
        DefaultArr | BoxedGenerate | DefaultBoxed => vec![len_idx(r)],
        CloneArr | NativeRoundtrip | TupleRoundtrip | IntoIter | ItLen | ItClone | ItCount | ItDebug | ArrBox | Unbox | BxClone | BxIntoIter | Flatten => vec![slot(r)],
        SerRecord => vec![slot(r), r.below(2)],
        Collect => {
            // honest: count == N, truthful hint, fused; entry any of the six
            let li = len_idx(r);
            let n = LENS[li as usize] as u32;
            let policy = r.pick(&[0u32, 1, 2, 5, 6]);
            vec![li, n, policy, r.below(6) << 1, r.below(4)]
        }
        ItNext | ItNextBack | ItLast => vec![slot(r), r.below(2)],
        // the executor reduces the skip count modulo len+3 (arguments >= 100_000 mean "top of usize")
        ItNth | ItNthBack => vec![slot(r), match r.below(25) { 0 => 100_000 + r.below(4), 1..=8 => r.below(4200), _ => r.below(12) }, r.below(2)],
        ItWrite => vec![slot(r), if r.chance(1, 3) { r.below(4200) } else { r.below(9) }],
        ItFold | ItRfold => vec![slot(r), r.below(3)],
        ItCollect => vec![slot(r), r.below(4), len_idx(r)],
        ItCloneFrom | CloneFromArr => vec![slot(r), r.below(3)],
        Map => vec![slot(r), r.below(3), r.below(7)],
        Fold => vec![slot(r), r.below(3), r.below(4)],
        // a[4]: 0 = both operands of the run's element kind, 1/2 = plain partner of another type on the left/right
        Zip => vec![slot(r), r.below(3), r.below(3), r.below(10), r.pick(&[0u32, 0, 0, 1, 2])],
        Append => vec![slot(r), r.below(2)],
        Pop => vec![slot(r), r.below(2), r.below(2)],
        Split => vec![slot(r), r.below(9)],
        Concat => vec![slot(r), r.below(3)],
        Remove => vec![slot(r), if r.chance(1, 3) { r.below(4200) } else { r.below(9) }, r.below(2), r.below(2)],
        Unflatten => vec![slot(r), r.below(4)],
        NestGen => vec![r.below(NESTS.len() as u32)],
        NestClone => vec![slot(r)],
        NestIntoIter => vec![slot(r), r.below(6), r.below(2)],
        ArrToVec | BxToVec => vec![slot(r), r.below(2)],
        VecMake => vec![len_idx(r), r.below(4), r.below(2), r.below(4)],
        VecToArr | VecToBx => vec![slot(r), r.below(4), len_idx(r)],
        VitNext => vec![slot(r), r.below(2), r.below(2)],
        BoxArrMacro => vec![r.below(8)],
        BuilderRun => vec![len_idx(r), r.below(10), r.below(4)],
        ConsumerRun => vec![slot(r), r.below(10)],
        DropObj => vec![r.pick(&[0u32, 0, 1, 1, 2, 3, 4, 5]), slot(r)],
        ReleaseLoose => vec![r.below(12)],
        SerReal => vec![slot(r), r.below(3)],
        DeScripted => {
            // honest: exactly N, hint none or exact, truthful running hint, no error
            let li = len_idx(r);
            let n = LENS[li as usize] as u32;
            vec![li, n, r.pick(&[0u32, 1, 2]), r.pick(&[0u32, 1]), 0]
        }
        DeReal => vec![len_idx(r), 1, r.below(3), 0, 0],
        WideOp => vec![r.below(crate::g_wide::N_WIDE), r.below(7), if r.chance(1, 2) { 0 } else { r.below(3) }, r.below(1 << 20), r.below(12)],
    };
    Op::new(kind, &args)
}

fn weighted(r: &mut Rng, table: &[(OpKind, u32)]) -> OpKind {
    let total: u32 = table.iter().map(|x| x.1).sum();
    let mut x = r.below(total);
    for &(k, w) in table {
        if x < w {
            return k;
        }
        x -= w;
    }
    table[0].0
}

/// the ownership-moving alphabet of C03 (also the set-up alphabet of the other checks)
pub const MOVES: &[(OpKind, u32)] = &[
    (Generate, 14),
    (DefaultArr, 3),
    (CloneArr, 4),
    (Collect, 5),
    (NativeRoundtrip, 3),
    (TupleRoundtrip, 3),
    (IntoIter, 8),
    (ItNext, 5),
    (ItNextBack, 5),
    (ItNth, 5),
    (ItNthBack, 5),
    (ItLen, 1),
    (ItWrite, 2),
    (ItClone, 4),
    (ItFold, 3),
    (ItRfold, 3),
    (ItCount, 2),
    (ItLast, 2),
    (ItDebug, 1),
    (ItCollect, 3),
    (ItCloneFrom, 2),
    (CloneFromArr, 2),
    (Map, 6),
    (Zip, 7),
    (Fold, 4),
    (Append, 4),
    (Pop, 4),
    (Split, 4),
    (Concat, 4),
    (Remove, 4),
    (Flatten, 2),
    (Unflatten, 3),
    (NestGen, 2),
    (NestClone, 1),
    (NestIntoIter, 2),
    (ArrToVec, 3),
    (ArrBox, 3),
    (Unbox, 2),
    (VecMake, 2),
    (VecToArr, 3),
    (VecToBx, 3),
    (BxToVec, 2),
    (BoxedGenerate, 3),
    (DefaultBoxed, 1),
    (BxClone, 1),
    (BxIntoIter, 2),
    (VitNext, 2),
    (BoxArrMacro, 1),
    (BuilderRun, 3),
    (ConsumerRun, 3),
    (DropObj, 9),
    (ReleaseLoose, 3),
    (WideOp, 3),
];

const ITER_OPS: &[(OpKind, u32)] = &[
    (Generate, 6),
    (IntoIter, 8),
    (ItNext, 8),
    (ItNextBack, 8),
    (ItNth, 9),
    (ItNthBack, 9),
    (ItLen, 4),
    (ItWrite, 3),
    (ItClone, 5),
    (ItFold, 3),
    (ItRfold, 3),
    (ItCount, 2),
    (ItLast, 2),
    (ItDebug, 3),
    (ItCollect, 2),
    (ItCloneFrom, 4),
    (DropObj, 2),
    (WideOp, 3),
];

const HEAP_OPS: &[(OpKind, u32)] = &[
    (Generate, 8),
    (ArrToVec, 6),
    (ArrBox, 5),
    (Unbox, 3),
    (VecMake, 8),
    (VecToArr, 7),
    (VecToBx, 9),
    (BxToVec, 8),
    (BoxedGenerate, 6),
    (DefaultBoxed, 3),
    (BxClone, 2),
    (BxIntoIter, 3),
    (VitNext, 3),
    (BoxArrMacro, 3),
    (Collect, 4),
    (Map, 3),
    (Zip, 3),
    (Fold, 2),
    (DropObj, 6),
    (ReleaseLoose, 1),
    (WideOp, 3),
];

const CALLBACK_OPS: &[(OpKind, u32)] = &[
    (Generate, 8),
    (DefaultArr, 4),
    (CloneArr, 6),
    (CloneFromArr, 4),
    (Map, 10),
    (Zip, 14),
    (Fold, 8),
    (BoxedGenerate, 4),
    (DefaultBoxed, 3),
    (ItFold, 3),
    (ItRfold, 3),
    (IntoIter, 3),
    (ArrBox, 4),
    (DropObj, 3),
    (WideOp, 6),
];

const SERDE_OPS: &[(OpKind, u32)] = &[
    (Generate, 6),
    (SerRecord, 5),
    (SerReal, 6),
    (DeScripted, 12),
    (DeReal, 8),
    (DropObj, 2),
];

/// seam through which `kind` calls back into caller code (for callback-panic injection)
pub fn callback_seams(kind: OpKind) -> &'static [Seam] {
    match kind {
        Generate | BoxedGenerate | NestGen | BuilderRun | ConsumerRun | ItFold | ItRfold | Fold => &[Seam::Closure],
        Map | Zip => &[Seam::Closure, Seam::Closure, Seam::Clone],
        DefaultArr | DefaultBoxed => &[Seam::Default],
        CloneArr | ItClone | BxClone | BoxArrMacro | ItCloneFrom | CloneFromArr | NestClone => &[Seam::Clone],
        Collect => &[Seam::SrcNext],
        WideOp => &[Seam::Closure, Seam::Closure, Seam::Clone, Seam::Default, Seam::SrcNext],
        _ => &[],
    }
}

fn fault_k(r: &mut Rng) -> u32 {
    // biased towards the first calls, but reaches every index of the dense lane
    match r.below(10) {
        0..=2 => 0,
        3..=4 => 1,
        5..=8 => r.below(9),
        _ => r.below(34),
    }
}

/// Abstract occupancy of the pool, tracked by the generator so that it mostly draws operations
/// whose operand exists. It is only an approximation (panics, evictions and failed conversions
/// are not modelled); operations are total, so a wrong guess is a harmless no-op.
#[derive(Default, Clone, Copy)]
pub struct Abs {
    arrs: u8,
    its: u8,
    bxs: u8,
    vecs: u8,
    nests: u8,
    vits: u8,
    loose: u8,
}

impl Abs {
    fn ready(&self, k: OpKind, args: &[u32; N_ARGS]) -> bool {
        match k {
            CloneArr | NativeRoundtrip | TupleRoundtrip | IntoIter | Append | Pop | Split | Remove | Unflatten | ArrToVec | ArrBox | ConsumerRun | SerRecord | SerReal => self.arrs > 0,
            Map => if matches!(args[2] % 7, 3 | 6) { self.bxs > 0 } else { self.arrs > 0 },
            Fold => if args[2] % 4 == 3 { self.bxs > 0 } else { self.arrs > 0 },
            ItCloneFrom => self.its > 1,
            CloneFromArr => self.arrs > 1,
            Zip => if args[3] % 10 == 9 { self.bxs > 0 } else { self.arrs > 0 },
            Concat => self.arrs > 1,
            ItNext | ItNextBack | ItNth | ItNthBack | ItLen | ItWrite | ItClone | ItFold | ItRfold | ItCount | ItLast | ItDebug | ItCollect => self.its > 0,
            Flatten | NestClone | NestIntoIter => self.nests > 0,
            Unbox | BxToVec | BxClone | BxIntoIter => self.bxs > 0,
            VecToArr | VecToBx => self.vecs > 0,
            VitNext => self.vits > 0,
            ReleaseLoose => self.loose > 0,
            DropObj => match args[0] % 6 { 0 => self.arrs > 0, 1 => self.its > 0, 2 => self.bxs > 0, 3 => self.vecs > 0, 4 => self.nests > 0, _ => self.vits > 0 },
            _ => true,
        }
    }
    fn apply(&mut self, k: OpKind, args: &[u32; N_ARGS]) {
        fn inc(x: &mut u8, cap: u8) { if *x < cap { *x += 1 } }
        fn dec(x: &mut u8) { if *x > 0 { *x -= 1 } }
        match k {
            Generate | DefaultArr | CloneArr | BuilderRun | DeScripted | DeReal => inc(&mut self.arrs, 3),
            Collect => if (args[3] >> 1) % 6 >= 3 { inc(&mut self.bxs, 3) } else { inc(&mut self.arrs, 3) },
            IntoIter => { dec(&mut self.arrs); inc(&mut self.its, 3) }
            ItClone => inc(&mut self.its, 3),
            ItNext | ItNextBack | ItNth | ItNthBack | ItWrite | Pop | Remove => inc(&mut self.loose, 12),
            ItFold | ItRfold | ItCount | ItLast => { dec(&mut self.its); inc(&mut self.loose, 12) }
            ItCollect => { dec(&mut self.its); inc(&mut self.arrs, 3) }
            Split => inc(&mut self.arrs, 3),
            Concat => dec(&mut self.arrs),
            Flatten => { dec(&mut self.nests); inc(&mut self.arrs, 3) }
            Unflatten => { dec(&mut self.arrs); inc(&mut self.nests, 2) }
            NestGen | NestClone => inc(&mut self.nests, 2),
            NestIntoIter => { dec(&mut self.nests); inc(&mut self.arrs, 3) }
            ArrToVec => { dec(&mut self.arrs); inc(&mut self.vecs, 3) }
            ArrBox => { dec(&mut self.arrs); inc(&mut self.bxs, 3) }
            Unbox => { dec(&mut self.bxs); inc(&mut self.arrs, 3) }
            VecMake => inc(&mut self.vecs, 3),
            VecToArr => { dec(&mut self.vecs); inc(&mut self.arrs, 3) }
            VecToBx => { dec(&mut self.vecs); inc(&mut self.bxs, 3) }
            BxToVec => { dec(&mut self.bxs); inc(&mut self.vecs, 3) }
            BoxedGenerate | DefaultBoxed | BxClone | BoxArrMacro => inc(&mut self.bxs, 3),
            BxIntoIter => { dec(&mut self.bxs); inc(&mut self.vits, 2) }
            ConsumerRun => { dec(&mut self.arrs); inc(&mut self.loose, 12) }
            ReleaseLoose => dec(&mut self.loose),
            DropObj => match args[0] % 6 { 0 => dec(&mut self.arrs), 1 => dec(&mut self.its), 2 => dec(&mut self.bxs), 3 => dec(&mut self.vecs), 4 => dec(&mut self.nests), _ => dec(&mut self.vits) },
            Fold => if args[2] % 4 == 0 { dec(&mut self.arrs) } else if args[2] % 4 == 3 { dec(&mut self.bxs) },
            _ => {}
        }
    }
}

/// draw an operation whose operand (probably) exists
fn next_op(r: &mut Rng, abs: &mut Abs, table: &[(OpKind, u32)]) -> Op {
    for _ in 0..6 {
        let k = weighted(r, table);
        let op = gen_op(r, k);
        if abs.ready(k, &op.args) {
            abs.apply(k, &op.args);
            return op;
        }
    }
    let op = gen_op(r, Generate);
    abs.apply(Generate, &op.args);
    op
}

/// swarm style: each run draws from its own random subset of the alphabet (creation and caller
/// drops always stay), and one run in ten is four times as long
fn swarm_table(r: &mut Rng, table: &[(OpKind, u32)]) -> Vec<(OpKind, u32)> {
    if r.chance(1, 3) {
        return table.to_vec();
    }
    let keep_p = r.range(3, 8);
    table.iter().copied().filter(|(k, _)| matches!(k, Generate | DropObj | IntoIter | ArrBox | VecMake | NestGen) || r.below(10) < keep_p).collect()
}

fn moves_trace(r: &mut Rng, n_ops: u32, table: &[(OpKind, u32)]) -> Vec<Op> {
    let mut abs = Abs::default();
    let table = swarm_table(r, table);
    let n_ops = if r.chance(1, 10) { n_ops * 4 } else { n_ops };
    (0..n_ops).map(|_| next_op(r, &mut abs, &table)).collect()
}

/// make the array / box an operation will act on right before it, so that the operand length
/// is a seeded choice rather than whatever the pool happens to hold
fn with_fresh_operand(r: &mut Rng, ops: &mut Vec<Op>, target: &mut Op) -> Option<u32> {
    let li = len_idx(r);
    let n = LENS[li as usize] as u32;
    match target.kind {
        Map if matches!(target.args[2] % 7, 3 | 6) => {
            ops.push(Op::new(Generate, &[li, 0]));
            ops.push(Op::new(ArrBox, &[LAST]));
            target.args[0] = LAST;
        }
        Fold if target.args[2] % 4 == 3 => {
            ops.push(Op::new(Generate, &[li, 0]));
            ops.push(Op::new(ArrBox, &[LAST]));
            target.args[0] = LAST;
        }
        Zip if target.args[3] % 10 == 9 => {
            ops.push(Op::new(Generate, &[li, 0]));
            ops.push(Op::new(ArrBox, &[LAST]));
            target.args[0] = LAST;
        }
        CloneFromArr => {
            ops.push(Op::new(Generate, &[li, 0]));
            ops.push(Op::new(Generate, &[li, 0]));
            target.args[0] = LAST;
            target.args[1] = 0;
        }
        ItCloneFrom => {
            for _ in 0..2 {
                ops.push(Op::new(Generate, &[li, 0]));
                ops.push(Op::new(IntoIter, &[LAST]));
                for _ in 0..r.below(3) {
                    ops.push(Op::new(if r.chance(1, 2) { ItNext } else { ItNextBack }, &[LAST, r.below(2)]));
                }
            }
            target.args[0] = LAST + r.below(2);
            target.args[1] = 0;
        }
        Map | Fold | Zip | CloneArr | ConsumerRun | IntoIter | ArrToVec | ArrBox | Split | Remove | Pop | Append | SerRecord | SerReal | NativeRoundtrip | TupleRoundtrip | Unflatten => {
            ops.push(Op::new(Generate, &[li, 0]));
            target.args[0] = LAST;
        }
        ItFold | ItRfold | ItClone | ItNth | ItNthBack | ItCount | ItLast | ItCollect | ItNext | ItNextBack | ItLen | ItDebug | ItWrite => {
            ops.push(Op::new(Generate, &[li, 0]));
            ops.push(Op::new(IntoIter, &[LAST]));
            // consume a bit from both ends
            for _ in 0..r.below(3) {
                ops.push(Op::new(if r.chance(1, 2) { ItNext } else { ItNextBack }, &[LAST, r.below(2)]));
            }
            target.args[0] = LAST;
        }
        BxClone | BxToVec | BxIntoIter | Unbox => {
            ops.push(Op::new(Generate, &[li, 0]));
            ops.push(Op::new(ArrBox, &[LAST]));
            target.args[0] = LAST;
        }
        _ => return None,
    }
    Some(n)
}

/// fault ordinal relative to a known operand length: first, second, middle, second-to-last, last,
/// one past the end (the terminating poll of a source), or anywhere
fn fault_k_rel(r: &mut Rng, n: u32) -> u32 {
    match r.below(8) {
        0 => 0,
        1 => 1.min(n),
        2 => n / 2,
        3 => n.saturating_sub(2),
        4 => n.saturating_sub(1),
        5 => n,
        _ => r.below(n + 1),
    }
}

pub fn gen_trace(prop: Prop, seed: u64) -> Trace {
    let mut r = Rng::new(seed);
    let r = &mut r;
    let (elem, ops) = match prop {
        Prop::C03 => {
            let elem = elem_kind(r, 65, 20, 15);
            let n = r.range(3, 40);
            let mut ops = moves_trace(r, n, MOVES);
            for op in ops.iter_mut() {
                // rejected constructions are panic-free histories too: through the fallible entry
                // points a source may deliver any count, under any truthful hint
                if op.kind == Collect && r.chance(1, 3) {
                    let nn = LENS[op.args[0] as usize] as u32;
                    op.args[1] = r.below(nn + 4);
                    op.args[2] = r.pick(&[1u32, 2, 5, 6]);
                    op.args[3] = r.pick(&[0u32, 3]) << 1;
                }
            }
            (elem, ops)
        }
        Prop::C04 => {
            let elem = elem_kind(r, 70, 20, 10);
            let mut ops = Vec::new();
            let setup = r.below(7);
            ops.extend(moves_trace(r, setup, MOVES));
            let n_targets = r.range(1, 3);
            for _ in 0..n_targets {
                // a callback-bearing operation with a panic at call k
                let kind = loop {
                    let k = weighted(r, MOVES);
                    if !callback_seams(k).is_empty() && !matches!(k, DeScripted | DeReal | SerReal) {
                        break k;
                    }
                };
                let mut op = gen_op(r, kind);
                let mut known_n = None;
                if r.chance(3, 4) {
                    known_n = with_fresh_operand(r, &mut ops, &mut op);
                }
                if known_n.is_none() && matches!(kind, Generate | BoxedGenerate | DefaultArr | DefaultBoxed | Collect | BuilderRun) {
                    known_n = Some(LENS[op.args[0] as usize % LENS.len()] as u32);
                }
                let seams = callback_seams(kind);
                let seam = r.pick(seams);
                let k = match known_n {
                    Some(n) if r.chance(2, 3) => fault_k_rel(r, n),
                    _ => fault_k(r),
                };
                op.faults.push((seam, k));
                ops.push(op);
                let follow = r.below(4);
                ops.extend(moves_trace(r, follow, MOVES));
            }
            (elem, ops)
        }
        Prop::C05 => {
            let elem = elem_kind(r, 75, 25, 0);
            let mut ops = Vec::new();
            let n = r.range(3, 24);
            let mut abs = Abs::default();
            // "an intermediate value of any operation": the deserialisation error paths tear down a
            // partially filled array too (short input, element error at k, surplus)
            let mut table = MOVES.to_vec();
            table.extend_from_slice(&[(DeScripted, 6), (DeReal, 3)]);
            for _ in 0..n {
                let mut op = next_op(r, &mut abs, &table);
                let kind = op.kind;
                if kind == DeScripted && r.chance(3, 4) {
                    let nn = LENS[op.args[0] as usize] as u32;
                    op.args[1] = match r.below(6) { 0 => nn, 1 => nn + 1, 2 | 3 => nn.saturating_sub(1 + r.below(2)), _ => r.below(nn + 3) };
                    op.args[2] = r.below(5) + 5 * (r.chance(1, 4) as u32);
                    op.args[3] = r.below(4) + 4 * (r.chance(1, 3) as u32);
                    op.args[4] = if r.chance(1, 3) { 1 + r.below(op.args[1] + 1) } else { 0 };
                }
                if kind == DeReal {
                    op.args[1] = r.below(3);
                    op.args[3] = if r.chance(1, 2) { 1 + r.below(200) } else { 0 };
                    op.args[4] = if r.chance(1, 4) { 1 + r.below(40) } else { 0 };
                }
                // error paths that tear down partially built values
                if kind == Collect && r.chance(1, 2) {
                    let nn = LENS[op.args[0] as usize] as u32;
                    op.args[1] = r.below(nn + 4);
                    op.args[2] = r.pick(&[0u32, 1, 1, 2, 5]);
                }
                if r.chance(3, 10) {
                    let mut known_n = None;
                    if r.chance(1, 2) {
                        known_n = with_fresh_operand(r, &mut ops, &mut op);
                    }
                    let k = match known_n {
                        Some(n) if r.chance(1, 2) => fault_k_rel(r, n),
                        _ => fault_k(r),
                    };
                    op.faults.push((Seam::Drop, k));
                }
                ops.push(op);
            }
            (elem, ops)
        }
        Prop::C06 => {
            let elem = elem_kind(r, 60, 15, 25);
            let n = r.range(4, 40);
            let raw = moves_trace(r, n, ITER_OPS);
            let mut ops = Vec::new();
            for mut op in raw {
                // clone_from needs two iterators over arrays of the same length
                if op.kind == ItCloneFrom && r.chance(3, 4) {
                    let _ = with_fresh_operand(r, &mut ops, &mut op);
                }
                if op.kind == WideOp {
                    op.args[0] = 8;
                }
                ops.push(op);
            }
            (elem, ops)
        }
        Prop::C07 => {
            let elem = elem_kind(r, 70, 15, 15);
            let mut ops = Vec::new();
            let n = r.range(1, 4);
            for _ in 0..n {
                let li = len_idx(r);
                let nn = LENS[li as usize] as u32;
                let c = match r.below(10) {
                    0..=3 => nn,
                    4 => nn.saturating_sub(1),
                    5 => nn + 1,
                    _ => r.below(nn + 4),
                };
                let mut op = Op::new(Collect, &[li, c, r.below(9), r.below(12), r.below(4)]);
                if r.chance(1, 6) {
                    let k = if r.chance(1, 2) { fault_k_rel(r, nn) } else { r.below(nn.min(40) + 2) };
                    op.faults.push((Seam::SrcNext, k));
                }
                ops.push(op);
                if r.chance(1, 3) {
                    let k = weighted(r, MOVES);
                    ops.push(gen_op(r, k));
                }
            }
            (elem, ops)
        }
        Prop::C08 => {
            let elem = elem_kind(r, 50, 10, 40);
            let mut ops = Vec::new();
            let n = r.range(2, 12);
            let mut abs = Abs::default();
            for _ in 0..n {
                let mut op = next_op(r, &mut abs, CALLBACK_OPS);
                let kind = op.kind;
                let mut known_n = None;
                if r.chance(1, 2) {
                    known_n = with_fresh_operand(r, &mut ops, &mut op);
                }
                if r.chance(1, 8) && !callback_seams(kind).is_empty() {
                    let seam = r.pick(callback_seams(kind));
                    let k = match known_n {
                        Some(n) if r.chance(1, 2) => fault_k_rel(r, n),
                        _ => fault_k(r),
                    };
                    op.faults.push((seam, k));
                }
                ops.push(op);
            }
            (elem, ops)
        }
        Prop::C15 => {
            let elem = elem_kind(r, 60, 20, 20);
            let n = r.range(3, 24);
            let mut ops = moves_trace(r, n, HEAP_OPS);
            for op in ops.iter_mut() {
                // heap conversions with adversarial lengths
                if op.kind == Collect {
                    op.args[3] = (3 + r.below(3)) << 1;
                }
                if op.kind == WideOp {
                    op.args[0] = 5 + r.below(3);
                }
            }
            (elem, ops)
        }
        Prop::C16 => {
            let elem = elem_kind(r, 60, 25, 15);
            let mut ops = Vec::new();
            let n = r.range(3, 20);
            let mut abs = Abs::default();
            for _ in 0..n {
                let mut op = next_op(r, &mut abs, HEAP_OPS);
                let kind = op.kind;
                let mut known_n: Option<u32> = None;
                if kind == WideOp {
                    op.args[0] = 5 + r.below(3);
                }
                if kind == Collect {
                    let nn = LENS[op.args[0] as usize] as u32;
                    op.args[3] = (3 + r.below(3)) << 1;
                    if r.chance(1, 2) {
                        op.args[1] = r.below(nn + 4);
                        op.args[2] = r.below(9);
                    }
                }
                if matches!(kind, Map | Zip | Fold) && r.chance(2, 3) {
                    // boxed forms
                    if kind == Zip { op.args[3] = 9 } else { op.args[2] = 3 }
                    known_n = with_fresh_operand(r, &mut ops, &mut op);
                }
                if known_n.is_none() && matches!(kind, BoxedGenerate | DefaultBoxed | Collect) {
                    known_n = Some(LENS[op.args[0] as usize % LENS.len()] as u32);
                }
                if r.chance(1, 4) && !callback_seams(kind).is_empty() {
                    let seam = r.pick(callback_seams(kind));
                    let k = match known_n {
                        Some(n) if r.chance(1, 2) => fault_k_rel(r, n),
                        _ => fault_k(r),
                    };
                    op.faults.push((seam, k));
                }
                ops.push(op);
            }
            // "no block stays allocated once all values are gone" is universal: a destructor that
            // panics while an alloc-feature operation discards what it collected (or while a heap
            // object is torn down) must not cost the crate's own block. The faulted operation is the
            // last of the trace: elements that unwinding abandons may leak (C05), so conservation of
            // element payloads is not judged for it, only the allocator's view of library blocks.
            if r.chance(1, 5) {
                let mut op = loop {
                    let k = weighted(r, HEAP_OPS);
                    if matches!(k, Collect | VecToArr | VecToBx | BxToVec | ArrToVec | BxIntoIter | DropObj | Map | Zip | Fold | WideOp) {
                        break gen_op(r, k);
                    }
                };
                let mut known_n: Option<u32> = None;
                match op.kind {
                    Collect => {
                        let nn = LENS[op.args[0] as usize] as u32;
                        op.args[3] = (3 + r.below(3)) << 1;
                        op.args[1] = r.below(nn + 4);
                        op.args[2] = r.pick(&[0u32, 1, 1, 2, 5, 6]);
                        known_n = Some(nn);
                    }
                    WideOp => op.args[0] = 5 + r.below(3),
                    Map | Fold => {
                        op.args[2] = 3;
                        known_n = with_fresh_operand(r, &mut ops, &mut op);
                    }
                    Zip => {
                        op.args[3] = 9;
                        known_n = with_fresh_operand(r, &mut ops, &mut op);
                    }
                    DropObj => op.args[0] = r.pick(&[2u32, 3, 5]),
                    _ => known_n = with_fresh_operand(r, &mut ops, &mut op),
                }
                let k = match known_n {
                    Some(n) if r.chance(1, 2) => fault_k_rel(r, n),
                    _ => fault_k(r),
                };
                op.faults.push((Seam::Drop, k));
                ops.push(op);
            }
            (elem, ops)
        }
        Prop::C17 => {
            let elem = elem_kind(r, 65, 15, 20);
            let mut ops = Vec::new();
            let n = r.range(2, 10);
            let mut abs = Abs::default();
            for _ in 0..n {
                let mut op = next_op(r, &mut abs, SERDE_OPS);
                let kind = op.kind;
                match kind {
                    DeScripted => {
                        let nn = LENS[op.args[0] as usize] as u32;
                        // adversarial script
                        if r.chance(3, 4) {
                            op.args[1] = match r.below(6) { 0 | 1 => nn, 2 => nn + 1, 3 => nn.saturating_sub(1), _ => r.below(nn + 3) };
                            op.args[2] = r.below(5) + 5 * (r.chance(1, 4) as u32);
                            op.args[3] = r.below(4) + 4 * (r.chance(1, 3) as u32);
                            op.args[4] = if r.chance(1, 3) { 1 + r.below(op.args[1] + 1) } else { 0 };
                        }
                    }
                    DeReal => {
                        op.args[1] = r.below(3);
                        op.args[3] = if r.chance(1, 2) { 1 + r.below(200) } else { 0 };
                        op.args[4] = if r.chance(1, 4) { 1 + r.below(40) } else { 0 };
                    }
                    SerRecord | SerReal => {
                        if r.chance(1, 2) {
                            let _ = with_fresh_operand(r, &mut ops, &mut op);
                        }
                    }
                    _ => {}
                }
                ops.push(op);
            }
            (elem, ops)
        }
    };
    Trace { prop, elem, seed, ops }
}
