//! A run = one trace executed against a fresh world; JSON form of traces (replay files).

use crate::alloc::{self, enter, Ctx};
use crate::elem::{pl_reset, Al, Elem, ElemKind, Pl, Tr, Zp, Zt};
use crate::ledger::{self, Seam, N_SEAMS};
use crate::ops::*;
use crate::world::*;
use serde_json::{json, Value};
use std::collections::{BTreeMap, BTreeSet};

#[derive(Clone, Debug, PartialEq)]
pub struct Trace {
    pub prop: Prop,
    pub elem: ElemKind,
    pub seed: u64,
    pub ops: Vec<Op>,
}

#[derive(Clone, Debug)]
pub struct Viol {
    /// index of the operation at (or after) which the violation was detected;
    /// ops.len() = teardown at the end of the run
    pub at_op: usize,
    pub op_name: String,
    pub class: String,
    pub detail: String,
}

impl Viol {
    /// key used to match against known findings and to keep the class stable while shrinking
    pub fn key(&self) -> String {
        self.class.clone()
    }
}

pub struct RunResult {
    pub violation: Option<Viol>,
    pub hash: u64,
    pub events: u64,
    pub ops_executed: u64,
    pub ops_noop: u64,
    pub seam_calls: u64,
    pub fired: [u64; N_SEAMS],
    pub elements_created: u64,
    pub cover: BTreeSet<u64>,
    pub probes: BTreeMap<&'static str, u64>,
    pub log: Vec<(u8, u32, u32)>,
}

/// operations implemented in the crate's `alloc` feature (src/impl_alloc.rs, box_arr!)
pub fn is_alloc_feature_op(op: &Op) -> bool {
    use OpKind::*;
    match op.kind {
        Collect => (op.args[3] >> 1) % 6 >= 3,
        ArrToVec | VecToArr | VecToBx | BxToVec | BoxedGenerate | DefaultBoxed | BxIntoIter | BoxArrMacro => true,
        Map => matches!(op.args[2] % 7, 3 | 6),
        Fold => op.args[2] % 4 == 3,
        Zip => op.args[3] % 10 == 9,
        ItCollect => op.args[1] % 4 == 2,
        WideOp => matches!(op.args[0] % crate::g_wide::N_WIDE, 5 | 6 | 7),
        _ => false,
    }
}

pub fn run_trace(t: &Trace, record: bool) -> RunResult {
    match t.elem {
        ElemKind::Tr => run::<Tr>(t, record),
        ElemKind::Zt => run::<Zt>(t, record),
        ElemKind::Pl => run::<Pl>(t, record),
        ElemKind::Al => run::<Al>(t, record),
        ElemKind::Zp => run::<Zp>(t, record),
    }
}

fn check_alloc_flags(cx: &Cx) {
    if cx.checks.c16 {
        let f = alloc::flags();
        if f & (alloc::F_ZERO_SIZE | alloc::F_LAYOUT_MISMATCH | alloc::F_UNKNOWN_FREE) != 0 {
            let class = if f & alloc::F_ZERO_SIZE != 0 {
                "C16-zero-size-request"
            } else if f & alloc::F_LAYOUT_MISMATCH != 0 {
                "C16-layout-mismatch"
            } else {
                "C16-unknown-free"
            };
            fail(class, alloc_flag_text(f));
        }
    }
}

/// allocation-failure lane: -2 off, -1 count the library allocations of the last operation,
/// j >= 0: the j-th library allocation of the last operation returns null
pub static ALLOC_FAIL_LAST: std::sync::atomic::AtomicI64 = std::sync::atomic::AtomicI64::new(-2);
pub static LAST_OP_LIB_ALLOCS: std::sync::atomic::AtomicU64 = std::sync::atomic::AtomicU64::new(0);
pub static LAST_OP_FAILS_FIRED: std::sync::atomic::AtomicU64 = std::sync::atomic::AtomicU64::new(0);

fn run<E: Elem>(t: &Trace, record: bool) -> RunResult {
    let _g = enter(Ctx::Infra);
    ledger::reset(record);
    pl_reset();
    alloc::clear_flags();
    alloc::disarm_alloc_failure();
    let base_blocks = alloc::live_workload_blocks();
    let mut cx = Cx::new(t.prop);
    let mut w = World::<E>::new();
    let mut violation: Option<Viol> = None;
    let mut prev_kind: u64 = 999;
    for (i, op) in t.ops.iter().enumerate() {
        ledger::op_begin(i as u32, op.kind as u32, &op.faults);
        cx.ops_executed += 1;
        if t.prop == Prop::C16 {
            // an element with a heap payload that an alloc-feature operation loses leaves a block
            // allocated "once all values are gone": judged right after such an operation only
            // (leaks by other operations are not C16's business)
            cx.checks.conserve = matches!(E::KIND, ElemKind::Tr | ElemKind::Al) && is_alloc_feature_op(op) && !op.faults.iter().any(|f| f.0 == crate::ledger::Seam::Drop);
        }
        let af = ALLOC_FAIL_LAST.load(std::sync::atomic::Ordering::Relaxed);
        let af_here = af != -2 && i + 1 == t.ops.len();
        if af_here {
            alloc::arm_alloc_failure(af);
        }
        w.apply(&mut cx, op);
        if af_here {
            LAST_OP_LIB_ALLOCS.store(alloc::lib_allocs(), std::sync::atomic::Ordering::Relaxed);
            LAST_OP_FAILS_FIRED.store(alloc::alloc_failures_fired(), std::sync::atomic::Ordering::Relaxed);
            alloc::disarm_alloc_failure();
        }
        let fired_now = ledger::fired();
        let drop_fired = fired_now.iter().any(|f| f.0 == Seam::Drop);
        // generic coverage: which fault fired at which ordinal in which operation; operation bigrams
        for f in &fired_now {
            cx.cov(&[2000, op.kind as u64, f.0 as u64, f.1 as u64]);
        }
        cx.cov(&[1000, prev_kind, op.kind as u64]);
        prev_kind = op.kind as u64;
        ledger::op_end(i as u32, cx.op_panicked as u32);
        let _ = drop_fired;
        w.walk(&mut cx);
        check_alloc_flags(&cx);
        if let Some(v) = ledger::violation() {
            violation = Some(Viol {
                at_op: i,
                op_name: op.kind.name().to_string(),
                class: v.class.to_string(),
                detail: v.detail,
            });
            break;
        }
    }
    if t.prop == Prop::C16 {
        cx.checks.conserve = false;
    }
    // teardown: the caller drops everything it still holds
    let n = t.ops.len();
    ledger::op_begin(n as u32, 255, &[]);
    w.teardown(&mut cx);
    ledger::op_end(n as u32, 0);
    if violation.is_none() {
        w.walk(&mut cx);
        check_alloc_flags(&cx);
        if cx.checks.c16 {
            let live = alloc::live_workload_blocks() - base_blocks;
            if live != 0 {
                let sizes = alloc::live_workload_sizes(8);
                fail(
                    "C16-block-leak",
                    format!("{live} heap block(s) still allocated after every value is gone (size, align, ctx): {sizes:?}"),
                );
            }
        }
        if let Some(v) = ledger::violation() {
            violation = Some(Viol {
                at_op: n,
                op_name: "teardown".to_string(),
                class: v.class.to_string(),
                detail: v.detail,
            });
        }
    }
    // whatever this run leaked (legally or not) must not reach the next run
    alloc::sweep_workload_blocks();
    if alloc::flags() & alloc::F_TABLE_FULL != 0 {
        eprintln!("HARNESS-ERROR allocator table full");
        std::process::exit(2);
    }
    let s = ledger::summary();
    RunResult {
        violation,
        hash: s.hash,
        events: s.events,
        ops_executed: cx.ops_executed,
        ops_noop: cx.ops_noop,
        seam_calls: s.seam_calls,
        fired: s.fired,
        elements_created: s.created,
        cover: std::mem::take(&mut cx.cover),
        probes: std::mem::take(&mut cx.probes),
        log: ledger::take_log(),
    }
}

// ---- JSON -----------------------------------------------------------------

pub fn op_to_json(op: &Op) -> Value {
    let mut last = 0;
    for (i, a) in op.args.iter().enumerate() {
        if *a != 0 {
            last = i + 1;
        }
    }
    let mut o = json!({"op": op.kind.name(), "args": op.args[..last].to_vec()});
    if !op.faults.is_empty() {
        o["faults"] = Value::Array(
            op.faults
                .iter()
                .map(|f| json!({"seam": f.0.name(), "k": f.1}))
                .collect(),
        );
    }
    o
}

pub fn op_from_json(v: &Value) -> Result<Op, String> {
    let name = v["op"].as_str().ok_or("op name missing")?;
    let kind = OpKind::from_name(name).ok_or_else(|| format!("unknown op {name}"))?;
    let mut args = [0u32; N_ARGS];
    if let Some(a) = v["args"].as_array() {
        for (i, x) in a.iter().enumerate().take(N_ARGS) {
            args[i] = x.as_u64().ok_or("bad arg")? as u32;
        }
    }
    let mut faults = Vec::new();
    if let Some(fs) = v["faults"].as_array() {
        for f in fs {
            let seam = Seam::from_name(f["seam"].as_str().ok_or("seam missing")?).ok_or("unknown seam")?;
            faults.push((seam, f["k"].as_u64().ok_or("k missing")? as u32));
        }
    }
    Ok(Op { kind, args, faults })
}

pub fn trace_to_json(t: &Trace) -> Value {
    json!({
        "format": 1,
        "property": t.prop.name(),
        "elem": t.elem.name(),
        "seed": t.seed,
        "ops": t.ops.iter().map(op_to_json).collect::<Vec<_>>(),
    })
}

pub fn trace_from_json(v: &Value) -> Result<Trace, String> {
    let prop = Prop::from_name(v["property"].as_str().ok_or("property missing")?).ok_or("unknown property")?;
    let elem = ElemKind::from_name(v["elem"].as_str().ok_or("elem missing")?).ok_or("unknown elem")?;
    let seed = v["seed"].as_u64().unwrap_or(0);
    let mut ops = Vec::new();
    for o in v["ops"].as_array().ok_or("ops missing")? {
        ops.push(op_from_json(o)?);
    }
    Ok(Trace { prop, elem, seed, ops })
}

pub fn log_to_json(log: &[(u8, u32, u32)]) -> Value {
    Value::Array(
        log.iter()
            .map(|&(t, a, b)| {
                let name = ledger::EV_NAMES.get(t as usize).copied().unwrap_or("?");
                match t {
                    ledger::EV_SEAM | ledger::EV_FAULT => json!([name, ledger::SEAM_NAMES.get(a as usize).copied().unwrap_or("?"), b]),
                    _ => json!([name, a, b]),
                }
            })
            .collect(),
    )
}
