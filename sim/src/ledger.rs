//! The monitor: element ledger, event log (hashed), fault controller.
//!
//! Thread-local, single-threaded by construction. Elements and blocks are named by
//! sequence numbers, never by address.

use crate::alloc::{enter, Ctx};
use std::cell::RefCell;

#[derive(Copy, Clone, PartialEq, Eq, Debug, PartialOrd, Ord, Hash)]
#[repr(u8)]
pub enum Seam {
    Closure = 0,
    Clone = 1,
    Default = 2,
    SrcNext = 3,
    Drop = 4,
    DeElem = 5,
}
pub const N_SEAMS: usize = 6;
pub const SEAM_NAMES: [&str; N_SEAMS] = ["closure", "clone", "default", "src_next", "drop", "de_elem"];

impl Seam {
    pub fn name(self) -> &'static str {
        SEAM_NAMES[self as usize]
    }
    pub fn from_name(s: &str) -> Option<Seam> {
        Some(match s {
            "closure" => Seam::Closure,
            "clone" => Seam::Clone,
            "default" => Seam::Default,
            "src_next" => Seam::SrcNext,
            "drop" => Seam::Drop,
            "de_elem" => Seam::DeElem,
            _ => return None,
        })
    }
}

/// Payload of every injected panic.
#[derive(Debug, Clone, Copy)]
pub struct SimPanic {
    pub seam: Seam,
    pub k: u32,
}

#[derive(Clone, Debug)]
pub struct Violation {
    /// stable class, e.g. "I1-double-drop"
    pub class: &'static str,
    pub detail: String,
}

// event tags for the hash / optional recording
pub const EV_CREATE: u8 = 1;
pub const EV_CLONE: u8 = 2;
pub const EV_OBSERVE: u8 = 3;
pub const EV_DROP: u8 = 4;
pub const EV_SEAM: u8 = 5;
pub const EV_FAULT: u8 = 6;
pub const EV_OPBEGIN: u8 = 7;
pub const EV_OPEND: u8 = 8;
pub const EV_NOTE: u8 = 9;
pub const EV_NAMES: [&str; 10] = [
    "?", "create", "clone_of", "observe", "drop", "seam", "fault", "op_begin", "op_end", "note",
];

pub struct State {
    /// per element id: 0 never existed, 1 live, n>=2: dropped n-1 times
    st: Vec<u8>,
    /// epoch mark for reachability walks
    mark: Vec<u32>,
    epoch: u32,
    pub live: usize,
    pub created: u64,
    pub dropped: u64,
    pub zt_created: u64,
    pub zt_dropped: u64,
    pub observes: u64,
    pub violation: Option<Violation>,
    pub hash: u64,
    pub events: u64,
    pub record: bool,
    pub log: Vec<(u8, u32, u32)>,
    // fault controller (per operation)
    pub seam_count: [u32; N_SEAMS],
    pub armed: Vec<(Seam, u32)>,
    pub fired: Vec<(Seam, u32)>,
    pub suppressed: u32,
    /// a non-drop fault fired in this op: any further callback is a violation
    callback_fault_fired: bool,
    pub total_seam_calls: u64,
    pub total_fired: [u64; N_SEAMS],
    pub last_panic_msg: Option<String>,
    /// (source id / parsed value, new id) of every Clone / Deserialize since last cleared
    pub clones: Vec<(u32, u32)>,
}

impl State {
    fn new() -> State {
        State {
            st: vec![0; 1],
            mark: vec![0; 1],
            epoch: 0,
            live: 0,
            created: 0,
            dropped: 0,
            zt_created: 0,
            zt_dropped: 0,
            observes: 0,
            violation: None,
            hash: 0xcbf2_9ce4_8422_2325,
            events: 0,
            record: false,
            log: Vec::new(),
            seam_count: [0; N_SEAMS],
            armed: Vec::new(),
            fired: Vec::new(),
            suppressed: 0,
            callback_fault_fired: false,
            total_seam_calls: 0,
            total_fired: [0; N_SEAMS],
            last_panic_msg: None,
            clones: Vec::new(),
        }
    }

    #[inline]
    fn ev(&mut self, tag: u8, a: u32, b: u32) {
        let mut h = self.hash;
        for w in [tag as u64, a as u64, b as u64] {
            h ^= w;
            h = h.wrapping_mul(0x0000_0100_0000_01B3);
        }
        self.hash = h;
        self.events += 1;
        if self.record {
            self.log.push((tag, a, b));
        }
    }

    fn violate(&mut self, class: &'static str, detail: String) {
        if self.violation.is_none() {
            self.violation = Some(Violation { class, detail });
        }
    }
}

thread_local! {
    static ST: RefCell<State> = RefCell::new(State::new());
}

#[inline]
pub fn with<R>(f: impl FnOnce(&mut State) -> R) -> R {
    let _g = enter(Ctx::Infra);
    ST.with(|s| f(&mut s.borrow_mut()))
}

/// Start a fresh run.
pub fn reset(record: bool) {
    with(|s| {
        let mut n = State::new();
        // keep capacity
        std::mem::swap(&mut n.st, &mut s.st);
        std::mem::swap(&mut n.mark, &mut s.mark);
        std::mem::swap(&mut n.log, &mut s.log);
        n.st.clear();
        n.st.push(0);
        n.mark.clear();
        n.mark.push(0);
        n.log.clear();
        n.record = record;
        *s = n;
    })
}

pub fn ev(tag: u8, a: u32, b: u32) {
    with(|s| s.ev(tag, a, b))
}

pub fn violate(class: &'static str, detail: String) {
    with(|s| s.violate(class, detail))
}

pub fn violation() -> Option<Violation> {
    with(|s| s.violation.clone())
}

// ---- elements --------------------------------------------------------------

/// New identity-carrying element.
pub fn create() -> u32 {
    with(|s| {
        let id = s.st.len() as u32;
        s.st.push(1);
        s.mark.push(0);
        s.live += 1;
        s.created += 1;
        s.ev(EV_CREATE, id, 0);
        id
    })
}

pub fn note_clone(src: u32, new: u32) {
    with(|s| {
        s.ev(EV_CLONE, src, new);
        s.clones.push((src, new));
    })
}

pub enum DropOutcome {
    First,
    Again,
    Garbage,
}

/// An element with identity `id` is being dropped; `valid` = its canary was intact.
pub fn on_drop(id: u32, valid: bool) -> DropOutcome {
    with(|s| {
        if !valid || id == 0 || id as usize >= s.st.len() {
            s.ev(EV_DROP, u32::MAX, 0);
            s.violate(
                "I2-garbage-dropped",
                format!("a slot that holds no element (bad canary / unknown id {id:#x}) was dropped as an element"),
            );
            return DropOutcome::Garbage;
        }
        s.ev(EV_DROP, id, 0);
        s.dropped += 1;
        let st = s.st[id as usize];
        if st == 1 {
            s.st[id as usize] = 2;
            s.live -= 1;
            DropOutcome::First
        } else {
            s.st[id as usize] = st.saturating_add(1);
            s.violate(
                "I1-double-drop",
                format!("element #{id} dropped {} times", st),
            );
            DropOutcome::Again
        }
    })
}

/// An element is handed to caller code / read by the harness.
/// Returns false if it is not a live element.
pub fn on_observe(id: u32, valid: bool, site: u32) -> bool {
    with(|s| {
        s.observes += 1;
        if !valid || id == 0 || id as usize >= s.st.len() {
            s.ev(EV_OBSERVE, u32::MAX, site);
            s.violate(
                "I2-garbage-observed",
                format!("a slot that holds no element (bad canary / unknown id {id:#x}) was handed out as an element (site {site})"),
            );
            return false;
        }
        s.ev(EV_OBSERVE, id, site);
        if s.st[id as usize] != 1 {
            s.violate(
                "I2-observed-after-drop",
                format!("element #{id} observed after it was dropped (site {site})"),
            );
            return false;
        }
        true
    })
}

pub fn known(id: u32) -> bool {
    with(|s| id != 0 && (id as usize) < s.st.len())
}
pub fn is_live(id: u32) -> bool {
    with(|s| (id as usize) < s.st.len() && s.st[id as usize] == 1)
}

pub fn zt_create() {
    with(|s| {
        s.zt_created += 1;
        s.ev(EV_CREATE, 0, 1);
    })
}
pub fn zt_drop() {
    with(|s| {
        s.zt_dropped += 1;
        s.ev(EV_DROP, 0, 1);
        if s.zt_dropped > s.zt_created {
            s.violate(
                "I1-double-drop",
                format!(
                    "zero-sized elements: {} dropped but only {} created",
                    s.zt_dropped, s.zt_created
                ),
            );
        }
    })
}

// ---- reachability walk (conservation) --------------------------------------

pub fn walk_begin() {
    with(|s| {
        s.epoch += 1;
    })
}
/// mark an id as reachable from the pool; reports duplicates
pub fn walk_mark(id: u32) {
    with(|s| {
        if (id as usize) < s.mark.len() && id != 0 {
            if s.mark[id as usize] == s.epoch {
                s.violate(
                    "I1-bitwise-duplicate",
                    format!("element #{id} is reachable from two places at once (it will be dropped twice)"),
                );
            }
            s.mark[id as usize] = s.epoch;
        }
    })
}
/// live ids that were not marked in the current walk (up to `max`)
pub fn walk_unreached(max: usize) -> Vec<u32> {
    with(|s| {
        let mut v = Vec::new();
        for id in 1..s.st.len() {
            if s.st[id] == 1 && s.mark[id] != s.epoch {
                v.push(id as u32);
                if v.len() >= max {
                    break;
                }
            }
        }
        v
    })
}
// ---- fault controller -------------------------------------------------------

/// Begin an operation: reset per-op seam counters and arm the given faults.
pub fn op_begin(index: u32, kind: u32, faults: &[(Seam, u32)]) {
    with(|s| {
        s.seam_count = [0; N_SEAMS];
        s.armed.clear();
        s.armed.extend_from_slice(faults);
        s.fired.clear();
        s.suppressed = 0;
        s.callback_fault_fired = false;
        s.last_panic_msg = None;
        s.ev(EV_OPBEGIN, index, kind);
    })
}

pub fn op_end(index: u32, outcome: u32) {
    with(|s| {
        s.armed.clear();
        s.ev(EV_OPEND, index, outcome);
    })
}

pub fn seam_count(seam: Seam) -> u32 {
    with(|s| s.seam_count[seam as usize])
}
pub fn fired() -> Vec<(Seam, u32)> {
    with(|s| s.fired.clone())
}

/// Called by every seam stub. Logs the call; panics with `SimPanic` if a fault is armed
/// for (seam, ordinal). Returns the ordinal of this call within the operation.
pub fn tick(seam: Seam) -> u32 {
    let fire = with(|s| {
        let k = s.seam_count[seam as usize];
        s.seam_count[seam as usize] = k + 1;
        s.total_seam_calls += 1;
        s.ev(EV_SEAM, seam as u32, k);
        if let Some(pos) = s.armed.iter().position(|&(sm, kk)| sm == seam && kk == k) {
            if seam == Seam::Drop && std::thread::panicking() {
                // a second panic while unwinding aborts by language rule; out of scope
                s.armed.swap_remove(pos);
                s.suppressed += 1;
                return None;
            }
            s.armed.swap_remove(pos);
            s.fired.push((seam, k));
            s.total_fired[seam as usize] += 1;
            if seam != Seam::Drop {
                s.callback_fault_fired = true;
            }
            s.ev(EV_FAULT, seam as u32, k);
            Some(k)
        } else {
            None
        }
    });
    let k = with(|s| s.seam_count[seam as usize] - 1);
    if let Some(k) = fire {
        let _g = enter(Ctx::Infra);
        std::panic::panic_any(SimPanic { seam, k });
    }
    k
}

pub fn set_panic_msg(m: String) {
    // called from the panic hook; must not panic
    let _g = enter(Ctx::Infra);
    let _ = ST.try_with(|s| {
        if let Ok(mut s) = s.try_borrow_mut() {
            s.last_panic_msg = Some(m);
        }
    });
}
pub fn take_panic_msg() -> Option<String> {
    with(|s| s.last_panic_msg.take())
}

pub struct Summary {
    pub hash: u64,
    pub events: u64,
    pub created: u64,
    pub dropped: u64,
    pub observes: u64,
    pub seam_calls: u64,
    pub fired: [u64; N_SEAMS],
}
pub fn summary() -> Summary {
    with(|s| Summary {
        hash: s.hash,
        events: s.events,
        created: s.created + s.zt_created,
        dropped: s.dropped + s.zt_dropped,
        observes: s.observes,
        seam_calls: s.total_seam_calls,
        fired: s.total_fired,
    })
}
pub fn live_count() -> usize {
    with(|s| s.live)
}
pub fn zt_balance() -> (u64, u64) {
    with(|s| (s.zt_created, s.zt_dropped))
}
pub fn take_log() -> Vec<(u8, u32, u32)> {
    with(|s| std::mem::take(&mut s.log))
}
