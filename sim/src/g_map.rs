//! generated split of the executors: one module per group so that each group gets its own codegen unit
#![allow(unused_imports)]
use crate::alloc::{self, enter, Ctx};
use crate::elem::Elem;
use crate::gen::*;
use crate::ledger::{self, Seam};
use crate::ops::*;
use crate::world::*;
use generic_array::functional::FunctionalSequence;
use generic_array::sequence::*;
use generic_array::typenum::Unsigned;
use generic_array::GenericArray;
#[allow(unused_imports)]
use std::collections::VecDeque;

#[allow(dead_code)]
fn infra<R>(f: impl FnOnce() -> R) -> R {
    let _g = enter(Ctx::Infra);
    f()
}
use crate::exec::{is_prefix, pick_len};

ops_group!(GMap);

impl<'a, E: Elem> GMap<'a, E> {
    /// map that changes the element type: tracked -> plain (form 4) and plain -> tracked (form 5)
    pub fn op_map_mixed(&mut self, cx: &mut Cx, a: [u32; N_ARGS], form: u32) {
        let Some(i) = pick_len(self.arrs.len(), a[0]) else { return self.noop(cx) };
        let mut cb = Cb::<E>::new(a[1]);
        let n = self.arrs[i].len();
        let li = self.arrs[i].len_idx();
        if form == 4 {
            let arr = self.arrs.remove(i);
            let pre = with_arr!(&arr; x, N => { let _ = N::USIZE; ids_of(x.as_slice(), 941) });
            let r = with_arr!(arr; x, N => { let _ = N::USIZE; lib(|| Arr::<Plain>::from(x.map(|e: E| {
                let _g = enter(Ctx::Work);
                ledger::tick(Seam::Closure);
                let id = e.observe(910);
                cb.record(id, 0);
                // behaviour: drop inside the callback or keep
                if (cb.beh + cb.calls) % 2 == 0 { drop(e) } else { cb.keep(e) }
                cb.calls += 1;
                Plain(id)
            }))) });
            cx.cov(&[OpKind::Map as u64, n as u64, 4, r.is_err() as u64, cb.calls as u64 * r.is_err() as u64]);
            let seen: Vec<u32> = infra(|| cb.args.iter().map(|x| x.0).collect());
            match r {
                Ok(out) => {
                    if cx.checks.c08 && E::HAS_ID {
                        let got: Vec<u32> = with_arr!(&out; x, N => { let _ = N::USIZE; x.iter().map(|p| p.0).collect() });
                        if seen != pre || got != pre {
                            fail("C08-call-order", format!("map to another type: callback saw {seen:?}, result holds {got:?}, expected {pre:?}"));
                        }
                    }
                }
                Err(p) => {
                    if cx.checks.c08 && E::HAS_ID && !(seen.len() <= pre.len() && seen[..] == pre[..seen.len()]) {
                        fail("C08-call-order", format!("map to another type: callback saw {seen:?} before the panic, expected a prefix of {pre:?}"));
                    }
                    on_panic(cx, "map (to plain)", p)
                }
            }
        } else {
            let r = with_len!(li; N => lib(|| {
                let src = GenericArray::<Plain, N>::generate(|i| Plain(i as u32));
                Arr::<E>::from(src.map(|p: Plain| {
                    let _g = enter(Ctx::Work);
                    ledger::tick(Seam::Closure);
                    cb.record(PLAIN_TAG | p.0, 0);
                    cb.calls += 1;
                    let e = E::make();
                    cb.out(e)
                }))
            }));
            cx.cov(&[OpKind::Map as u64, n as u64, 5, r.is_err() as u64, cb.calls as u64 * r.is_err() as u64]);
            let want: Vec<(u32, u32)> = infra(|| (0..n as u32).map(|k| (PLAIN_TAG | k, 0)).collect());
            match r {
                Ok(arr) => {
                    let got = with_arr!(&arr; x, N => { let _ = N::USIZE; ids_of(x.as_slice(), 942) });
                    self.check_cb_c08(cx, "map (from plain)", &cb, &want, Some(got));
                    self.put_arr(cx, arr);
                }
                Err(p) => {
                    self.check_cb_c08(cx, "map (from plain)", &cb, &want, None);
                    on_panic(cx, "map (from plain)", p);
                }
            }
        }
        let stash = core::mem::take(&mut cb.stash);
        self.put_loose_all(cx, stash);
    }

    pub fn op_map(&mut self, cx: &mut Cx, a: [u32; N_ARGS]) {
        let form = a[2] % 7;
        if form == 6 {
            return crate::g_bx::GBx(&mut *self.0).op_bx_map_bytes(cx, a);
        }
        if form >= 4 {
            return self.op_map_mixed(cx, a, form);
        }
        if form == 3 {
            return crate::g_bx::GBx(&mut *self.0).op_bx_map(cx, a);
        }
        let Some(i) = pick_len(self.arrs.len(), a[0]) else { return self.noop(cx) };
        let mut cb = Cb::<E>::new(a[1]);
        let n = self.arrs[i].len();
        let pre = with_arr!(&self.arrs[i]; x, N => { let _ = N::USIZE; ids_of(x.as_slice(), 941) });
        let want: Vec<(u32, u32)> = infra(|| pre.iter().map(|&id| (id, 0)).collect());
        let r = match form {
            0 => {
                let arr = self.arrs.remove(i);
                with_arr!(arr; x, N => { let _ = N::USIZE; lib(|| Arr::from(x.map(|e| map_cb(&mut cb, e)))) })
            }
            1 => {
                with_arr!(&self.arrs[i]; x, N => { let _ = N::USIZE; lib(|| Arr::from(FunctionalSequence::map(x, |e: &E| map_cb(&mut cb, e)))) })
            }
            _ => {
                with_arr!(&mut self.arrs[i]; x, N => { let _ = N::USIZE; lib(|| Arr::from(FunctionalSequence::map(x, |e: &mut E| map_cb(&mut cb, e)))) })
            }
        };
        cx.cov(&[OpKind::Map as u64, n as u64, form as u64, r.is_err() as u64, cb.calls as u64 * r.is_err() as u64]);
        match r {
            Ok(arr) => {
                let got = with_arr!(&arr; x, N => { let _ = N::USIZE; ids_of(x.as_slice(), 942) });
                self.check_cb_c08(cx, "map", &cb, &want, Some(got));
                self.put_arr(cx, arr);
            }
            Err(p) => {
                self.check_cb_c08(cx, "map", &cb, &want, None);
                on_panic(cx, "map", p);
            }
        }
        let stash = core::mem::take(&mut cb.stash);
        self.put_loose_all(cx, stash);
    }

    pub fn op_fold(&mut self, cx: &mut Cx, a: [u32; N_ARGS]) {
        let form = a[2] % 4;
        if form == 3 {
            return crate::g_bx::GBx(&mut *self.0).op_bx_fold(cx, a);
        }
        let Some(i) = pick_len(self.arrs.len(), a[0]) else { return self.noop(cx) };
        let mut cb = Cb::<E>::new(a[1]);
        let n = self.arrs[i].len();
        let pre = with_arr!(&self.arrs[i]; x, N => { let _ = N::USIZE; ids_of(x.as_slice(), 943) });
        let want = fold_expected(11, &pre);
        let init = Acc { token: 11, kept: infra(Vec::new) };
        let r = match form {
            0 => {
                let arr = self.arrs.remove(i);
                with_arr!(arr; x, N => { let _ = N::USIZE; lib(|| x.fold(init, |acc, e| fold_cb(&mut cb, acc, e))) })
            }
            1 => {
                with_arr!(&self.arrs[i]; x, N => { let _ = N::USIZE; lib(|| FunctionalSequence::fold(x, init, |acc, e: &E| fold_cb(&mut cb, acc, e))) })
            }
            _ => {
                with_arr!(&mut self.arrs[i]; x, N => { let _ = N::USIZE; lib(|| FunctionalSequence::fold(x, init, |acc, e: &mut E| fold_cb(&mut cb, acc, e))) })
            }
        };
        cx.cov(&[OpKind::Fold as u64, n as u64, form as u64, r.is_err() as u64, cb.calls as u64 * r.is_err() as u64]);
        match r {
            Ok(acc) => {
                if cx.checks.c08 {
                    if E::HAS_ID {
                        if cb.args != want {
                            fail("C08-call-order", format!("fold: callback saw (element, accumulator) {:?}, expected {:?}", cb.args, want));
                        }
                        let last = cb.outs.last().copied().unwrap_or(11);
                        if acc.token as u32 != last {
                            fail("C08-result", format!("fold returned an accumulator that is not the one returned by the last call"));
                        }
                    } else if cb.args.len() != n {
                        fail("C08-call-order", format!("fold: callback was called {} times for length {n}", cb.args.len()));
                    }
                }
                let Acc { kept, .. } = acc;
                self.put_loose_all(cx, kept);
            }
            Err(p) => {
                if cx.checks.c08 && E::HAS_ID && !(cb.args.len() <= want.len() && cb.args[..] == want[..cb.args.len()]) {
                    fail("C08-call-order", format!("fold: callback saw {:?} before the panic, expected a prefix of {:?}", cb.args, want));
                }
                on_panic(cx, "fold", p);
            }
        }
        let stash = core::mem::take(&mut cb.stash);
        self.put_loose_all(cx, stash);
    }

}
