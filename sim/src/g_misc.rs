//! generated split of the executors: one module per group so that each group gets its own codegen unit
#![allow(unused_imports)]
use crate::alloc::{self, enter, Ctx};
use crate::elem::Elem;
use crate::gen::*;
use crate::ledger::{self, Seam};
use crate::ops::*;
use crate::world::*;
use generic_array::functional::FunctionalSequence;
use generic_array::sequence::*;
use generic_array::typenum::Unsigned;
use generic_array::GenericArray;
#[allow(unused_imports)]
use std::collections::VecDeque;

#[allow(dead_code)]
fn infra<R>(f: impl FnOnce() -> R) -> R {
    let _g = enter(Ctx::Infra);
    f()
}
use generic_array::internals::{ArrayBuilder, ArrayConsumer, IntrusiveArrayBuilder};
use crate::exec::{is_prefix, pick_len};

ops_group!(GMisc);

impl<'a, E: Elem> GMisc<'a, E> {
    pub fn op_builder(&mut self, cx: &mut Cx, a: [u32; N_ARGS]) {
        let li = lens_idx(a[0]);
        let n = LENS[li];
        let p = a[1] as usize % (n + 1);
        let kind = a[2] % 4;
        if p == 0 {
            cx.probe("builder dropped at position 0");
        }
        if p == n {
            cx.probe("builder filled completely");
        }
        let r = with_len!(li; N => lib(|| unsafe {
            let mk = || { let _g = enter(Ctx::Work); ledger::tick(Seam::Closure); E::make() };
            match kind {
                0 => {
                    let mut b = ArrayBuilder::<E, N>::new();
                    {
                        let (it, pos) = b.iter_position();
                        for dst in it.take(p) {
                            dst.write(mk());
                            *pos += 1;
                        }
                    }
                    if p == N::USIZE { Some(Arr::from(b.assume_init())) } else { drop(b); None }
                }
                1 => {
                    let mut storage = GenericArray::<E, N>::uninit();
                    let mut b = IntrusiveArrayBuilder::new(&mut storage);
                    {
                        let (it, pos) = b.iter_position();
                        for dst in it.take(p) {
                            dst.write(mk());
                            *pos += 1;
                        }
                    }
                    if p == N::USIZE { b.finish(); Some(Arr::from(IntrusiveArrayBuilder::array_assume_init(storage))) } else { drop(b); None }
                }
                2 => {
                    // `extend` from a source that yields p items
                    let mut b = ArrayBuilder::<E, N>::new();
                    b.extend((0..p).map(|_| mk()));
                    if p == N::USIZE { Some(Arr::from(b.assume_init())) } else { drop(b); None }
                }
                _ => {
                    let mut storage = GenericArray::<E, N>::uninit();
                    let mut b = IntrusiveArrayBuilder::new(&mut storage);
                    b.extend((0..p).map(|_| mk()));
                    if p == N::USIZE { b.finish(); Some(Arr::from(IntrusiveArrayBuilder::array_assume_init(storage))) } else { drop(b); None }
                }
            }
        }));
        cx.cov(&[OpKind::BuilderRun as u64, n as u64, p as u64, kind as u64, r.is_err() as u64]);
        match r {
            Ok(Some(arr)) => self.put_arr(cx, arr),
            Ok(None) => {}
            Err(pn) => on_panic(cx, "array builder", pn),
        }
    }

    pub fn op_consumer(&mut self, cx: &mut Cx, a: [u32; N_ARGS]) {
        let Some(i) = pick_len(self.arrs.len(), a[0]) else { return self.noop(cx) };
        let arr = self.arrs.remove(i);
        let n = arr.len();
        let p = a[1] as usize % (n + 1);
        let mut out: Vec<E> = infra(Vec::new);
        let r = with_arr!(arr; x, N => { let _ = N::USIZE; lib(|| unsafe {
            let mut c = ArrayConsumer::new(x);
            {
                let (it, pos) = c.iter_position();
                for src in it.take(p) {
                    let v = core::ptr::read(src);
                    *pos += 1;
                    let _g = enter(Ctx::Work);
                    ledger::tick(Seam::Closure);
                    v.observe(947);
                    infra(|| out.push(v));
                }
            }
            drop(c);
        }) });
        cx.cov(&[OpKind::ConsumerRun as u64, n as u64, p as u64, r.is_err() as u64]);
        if let Err(pn) = r {
            on_panic(cx, "array consumer", pn);
        }
        self.put_loose_all(cx, out);
    }

    pub fn op_drop(&mut self, cx: &mut Cx, a: [u32; N_ARGS]) {
        let kind = a[0] % 6;
        match kind {
            0 => {
                let Some(i) = pick_len(self.arrs.len(), a[1]) else { return self.noop(cx) };
                let x = self.arrs.remove(i);
                cx.cov(&[OpKind::DropObj as u64, 0, x.len() as u64]);
                self.drop_value(cx, "drop array", x);
            }
            1 => {
                let Some(i) = pick_len(self.its.len(), a[1]) else { return self.noop(cx) };
                self.it_cov(cx, OpKind::DropObj, i, 0);
                let x = self.its.remove(i);
                self.drop_value(cx, "drop iterator", x.it);
            }
            2 => {
                let Some(i) = pick_len(self.bxs.len(), a[1]) else { return self.noop(cx) };
                let x = self.bxs.remove(i);
                cx.cov(&[OpKind::DropObj as u64, 2, x.len() as u64]);
                self.drop_value(cx, "drop box", x);
            }
            3 => {
                let Some(i) = pick_len(self.vecs.len(), a[1]) else { return self.noop(cx) };
                let x = self.vecs.remove(i);
                self.drop_value(cx, "drop vec", x);
            }
            4 => {
                let Some(i) = pick_len(self.nests.len(), a[1]) else { return self.noop(cx) };
                let x = self.nests.remove(i);
                self.drop_value(cx, "drop nested", x);
            }
            _ => {
                let Some(i) = pick_len(self.vits.len(), a[1]) else { return self.noop(cx) };
                let x = self.vits.remove(i);
                self.drop_value(cx, "drop vec iter", x);
            }
        }
    }

    pub fn op_release(&mut self, cx: &mut Cx, a: [u32; N_ARGS]) {
        let Some(i) = pick_len(self.loose.len(), a[0]) else { return self.noop(cx) };
        let e = self.loose.remove(i);
        e.observe(948);
        self.drop_value(cx, "release loose", e);
    }

}
