//! generated split of the executors: one module per group so that each group gets its own codegen unit
#![allow(unused_imports)]
use crate::alloc::{self, enter, Ctx};
use crate::elem::Elem;
use crate::gen::*;
use crate::ledger::{self, Seam};
use crate::ops::*;
use crate::world::*;
use generic_array::functional::FunctionalSequence;
use generic_array::sequence::*;
use generic_array::typenum::Unsigned;
use generic_array::GenericArray;
#[allow(unused_imports)]
use std::collections::VecDeque;

#[allow(dead_code)]
fn infra<R>(f: impl FnOnce() -> R) -> R {
    let _g = enter(Ctx::Infra);
    f()
}
use crate::exec::{is_prefix, pick_len};

ops_group!(GIter1);

impl<'a, E: Elem> GIter1<'a, E> {
    pub fn op_into_iter(&mut self, cx: &mut Cx, a: [u32; N_ARGS]) {
        let Some(i) = pick_len(self.arrs.len(), a[0]) else { return self.noop(cx) };
        let arr = self.arrs.remove(i);
        let n = arr.len();
        let ids = with_arr!(&arr; x, N => { let _ = N::USIZE; ids_of(x.as_slice(), 933) });
        let r = with_arr!(arr; x, N => { let _ = N::USIZE; lib(move || It::from(x.into_iter())) });
        match r {
            Ok(it) => {
                cx.cov(&[OpKind::IntoIter as u64, n as u64]);
                let model: VecDeque<u32> = infra(|| ids.into_iter().collect());
                self.put_it(cx, ItObj { it, model, front: 0, deferred: infra(Vec::new), deferred_anon: 0 })
            }
            Err(p) => on_panic(cx, "into_iter", p),
        }
    }

    pub fn op_it_next(&mut self, cx: &mut Cx, a: [u32; N_ARGS], back: bool) {
        let Some(i) = pick_len(self.its.len(), a[0]) else { return self.noop(cx) };
        self.it_cov(cx, if back { OpKind::ItNextBack } else { OpKind::ItNext }, i, 0);
        let io = &mut self.its[i];
        let r = with_it!(&mut io.it; it, N => { let _ = N::USIZE; lib(|| if back { it.next_back() } else { it.next() }) });
        match r {
            Ok(got) => {
                let want = if back { io.model.pop_back() } else { io.model.pop_front() };
                if !back && want.is_some() {
                    io.front += 1;
                }
                let got_id = got.as_ref().map(|e| e.observe(935));
                if cx.checks.c06 {
                    let ok = if E::HAS_ID { got_id == want } else { got_id.is_some() == want.is_some() };
                    if !ok {
                        fail("C06-return-value", format!("{} returned {got_id:?}, a queue of the same elements returns {want:?}", if back { "next_back" } else { "next" }));
                    }
                }
                if let Some(e) = got {
                    self.hand_back(cx, e, a[1]);
                }
            }
            Err(p) => on_panic(cx, "next/next_back", p),
        }
    }

    pub fn op_it_nth(&mut self, cx: &mut Cx, a: [u32; N_ARGS], back: bool) {
        let Some(i) = pick_len(self.its.len(), a[0]) else { return self.noop(cx) };
        let len = self.its[i].model.len();
        // argument range 0..=len+2, plus (args >= 100) arguments at the top of the usize range
        let n = if a[1] >= 100_000 { usize::MAX - (a[1] as usize - 100_000) % 4 } else { (a[1] as usize) % (len + 3) };
        if a[1] >= 100_000 {
            cx.probe("nth/nth_back with an argument near usize::MAX");
        }
        self.it_cov(cx, if back { OpKind::ItNthBack } else { OpKind::ItNth }, i, if a[1] >= 100_000 { 99 } else { n as u64 });
        if n >= len {
            cx.probe("nth/nth_back with n >= len");
        }
        let io = &mut self.its[i];
        let anon_dropped_before = ledger::zt_balance().1;
        let r = with_it!(&mut io.it; it, N => { let _ = N::USIZE; lib(|| if back { it.nth_back(n) } else { it.nth(n) }) });
        let anon_dropped = ledger::zt_balance().1 - anon_dropped_before;
        match r {
            Ok(got) => {
                let skip = n.min(len);
                for _ in 0..skip {
                    let gone = if back {
                        io.model.pop_back()
                    } else {
                        io.front += 1;
                        io.model.pop_front()
                    };
                    // a skipped element that is still live may be released lazily by the iterator
                    if let Some(id) = gone {
                        if E::HAS_ID && ledger::is_live(id) {
                            infra(|| io.deferred.push(id));
                        }
                    }
                }
                if !E::HAS_ID && E::TRACKED {
                    io.deferred_anon += (skip as u64).saturating_sub(anon_dropped);
                }
                let want = if back { io.model.pop_back() } else { io.model.pop_front() };
                if !back && want.is_some() {
                    io.front += 1;
                }
                let got_id = got.as_ref().map(|e| e.observe(936));
                if cx.checks.c06 {
                    let ok = if E::HAS_ID { got_id == want } else { got_id.is_some() == want.is_some() };
                    if !ok {
                        fail("C06-return-value", format!("{}({n}) with {len} remaining returned {got_id:?}, a queue returns {want:?}", if back { "nth_back" } else { "nth" }));
                    }
                }
                if let Some(e) = got {
                    self.hand_back(cx, e, a[2]);
                }
            }
            Err(p) => {
                on_panic(cx, "nth/nth_back", p);
                cx.probe("destructor panic inside nth/nth_back");
                self.resync_it(i);
            }
        }
    }

    pub fn op_it_len(&mut self, cx: &mut Cx, a: [u32; N_ARGS]) {
        let Some(i) = pick_len(self.its.len(), a[0]) else { return self.noop(cx) };
        self.it_cov(cx, OpKind::ItLen, i, 0);
        let io = &self.its[i];
        let r = with_it!(&io.it; it, N => { let _ = N::USIZE; lib(|| (ExactSizeIterator::len(it), it.size_hint())) });
        match r {
            Ok((len, hint)) => {
                let want = io.model.len();
                if cx.checks.c06 && (len != want || hint != (want, Some(want))) {
                    fail("C06-len", format!("len() = {len}, size_hint() = {hint:?} with {want} elements still to come"));
                }
            }
            Err(p) => on_panic(cx, "len/size_hint", p),
        }
    }

    pub fn op_it_write(&mut self, cx: &mut Cx, a: [u32; N_ARGS]) {
        let Some(i) = pick_len(self.its.len(), a[0]) else { return self.noop(cx) };
        self.it_cov(cx, OpKind::ItWrite, i, 0);
        let io = &mut self.its[i];
        let idx = a[1] as usize;
        let fresh = {
            let _g = enter(Ctx::Work);
            E::make()
        };
        let fresh_id = fresh.observe(937);
        let mut fresh = Some(fresh);
        let r = with_it!(&mut io.it; it, N => { let _ = N::USIZE; lib(|| {
            let s = it.as_mut_slice();
            if s.is_empty() { None } else { let k = idx % s.len(); Some((k, core::mem::replace(&mut s[k], fresh.take().unwrap()))) }
        }) });
        match r {
            Ok(Some((k, old))) => {
                let old_id = old.observe(938);
                if cx.checks.c06 && E::HAS_ID && io.model.get(k).copied() != Some(old_id) {
                    fail("C06-as-mut-slice", format!("as_mut_slice()[{k}] held {old_id}, the queue model has {:?}", io.model.get(k)));
                }
                if k < io.model.len() {
                    io.model[k] = fresh_id;
                }
                self.hand_back(cx, old, 0);
            }
            Ok(None) => {
                if cx.checks.c06 && !io.model.is_empty() {
                    fail("C06-as-mut-slice", format!("as_mut_slice() is empty with {} elements still to come", io.model.len()));
                }
                if let Some(f) = fresh.take() {
                    self.drop_value(cx, "drop unused element", f);
                }
            }
            Err(p) => {
                on_panic(cx, "as_mut_slice", p);
                if let Some(f) = fresh.take() {
                    self.drop_value(cx, "drop unused element", f);
                }
            }
        }
    }

}
