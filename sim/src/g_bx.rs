//! generated split of the executors: one module per group so that each group gets its own codegen unit
#![allow(unused_imports)]
use crate::alloc::{self, enter, Ctx};
use crate::elem::Elem;
use crate::gen::*;
use crate::ledger::{self, Seam};
use crate::ops::*;
use crate::world::*;
use generic_array::functional::FunctionalSequence;
use generic_array::sequence::*;
use generic_array::typenum::Unsigned;
use generic_array::GenericArray;
#[allow(unused_imports)]
use std::collections::VecDeque;

#[allow(dead_code)]
fn infra<R>(f: impl FnOnce() -> R) -> R {
    let _g = enter(Ctx::Infra);
    f()
}
use crate::g_collect::*;
use generic_array::box_arr;
use crate::exec::{is_prefix, pick_len};

ops_group!(GBx);

impl<'a, E: Elem> GBx<'a, E> {
    pub fn op_bx_map(&mut self, cx: &mut Cx, a: [u32; N_ARGS]) {
        let Some(i) = pick_len(self.bxs.len(), a[0]) else { cx.ops_noop += 1; return };
        let b = self.bxs.remove(i);
        let n = b.len();
        let mut cb = Cb::<E>::new(a[1]);
        let pre = with_bx!(&b; x, N => { let _ = N::USIZE; ids_of(x.as_slice(), 963) });
        let want: Vec<(u32, u32)> = infra(|| pre.iter().map(|&id| (id, 0)).collect());
        let r = with_bx!(b; x, N => { let _ = N::USIZE; lib(|| Bx::from(FunctionalSequence::map(x, |e: E| map_cb(&mut cb, e)))) });
        cx.cov(&[OpKind::Map as u64, n as u64, 3, r.is_err() as u64, cb.calls as u64 * r.is_err() as u64]);
        match r {
            Ok(bx) => {
                let got = with_bx!(&bx; x, N => { let _ = N::USIZE; ids_of(x.as_slice(), 964) });
                self.check_cb_c08(cx, "boxed map", &cb, &want, Some(got));
                self.put_bx(cx, bx);
            }
            Err(p) => {
                self.check_cb_c08(cx, "boxed map", &cb, &want, None);
                on_panic(cx, "boxed map", p);
            }
        }
        let stash = core::mem::take(&mut cb.stash);
        self.put_loose_all(cx, stash);
    }

    /// boxed map to a plain type of the same size but alignment 1 (an implementation that reuses
    /// the block must still release it with the layout it was requested with)
    pub fn op_bx_map_bytes(&mut self, cx: &mut Cx, a: [u32; N_ARGS]) {
        let Some(i) = pick_len(self.bxs.len(), a[0]) else { cx.ops_noop += 1; return };
        let b = self.bxs.remove(i);
        let n = b.len();
        let mut cb = Cb::<E>::new(a[1]);
        let r = with_bx!(b; x, N => { let _ = N::USIZE; lib(|| {
            let out: Box<GenericArray<E::Bytes, N>> = FunctionalSequence::map(x, |e: E| {
                let _g = enter(Ctx::Work);
                ledger::tick(Seam::Closure);
                let id = e.observe(910);
                cb.record(id, 0);
                if (cb.beh + cb.calls) % 2 == 0 { drop(e) } else { cb.keep(e) }
                cb.calls += 1;
                <E::Bytes as Default>::default()
            });
            out.len()
        }) });
        cx.cov(&[OpKind::Map as u64, n as u64, 6, r.is_err() as u64, cb.calls as u64 * r.is_err() as u64]);
        match r {
            Ok(len) => {
                if cx.checks.c08 && len != n {
                    fail("C08-result", format!("boxed map to bytes returned length {len} for {n}"));
                }
            }
            Err(p) => on_panic(cx, "boxed map (to bytes)", p),
        }
        let stash = core::mem::take(&mut cb.stash);
        self.put_loose_all(cx, stash);
    }

    pub fn op_bx_fold(&mut self, cx: &mut Cx, a: [u32; N_ARGS]) {
        let Some(i) = pick_len(self.bxs.len(), a[0]) else { cx.ops_noop += 1; return };
        let b = self.bxs.remove(i);
        let n = b.len();
        let mut cb = Cb::<E>::new(a[1]);
        let pre = with_bx!(&b; x, N => { let _ = N::USIZE; ids_of(x.as_slice(), 965) });
        let want = fold_expected(11, &pre);
        let init = Acc { token: 11, kept: infra(Vec::new) };
        let r = with_bx!(b; x, N => { let _ = N::USIZE; lib(|| FunctionalSequence::fold(x, init, |acc, e: E| fold_cb(&mut cb, acc, e))) });
        cx.cov(&[OpKind::Fold as u64, n as u64, 3, r.is_err() as u64, cb.calls as u64 * r.is_err() as u64]);
        match r {
            Ok(acc) => {
                if cx.checks.c08 {
                    if E::HAS_ID && cb.args != want {
                        fail("C08-call-order", format!("boxed fold: callback saw (element, accumulator) {:?}, expected {:?}", cb.args, want));
                    }
                    if !E::HAS_ID && cb.args.len() != n {
                        fail("C08-call-order", format!("boxed fold: callback was called {} times for length {n}", cb.args.len()));
                    }
                }
                let Acc { kept, .. } = acc;
                self.put_loose_all(cx, kept);
            }
            Err(p) => on_panic(cx, "boxed fold", p),
        }
        let stash = core::mem::take(&mut cb.stash);
        self.put_loose_all(cx, stash);
    }

    pub fn op_bx_zip(&mut self, cx: &mut Cx, a: [u32; N_ARGS]) {
        let Some(i) = pick_len(self.bxs.len(), a[0]) else { cx.ops_noop += 1; return };
        let n = self.bxs[i].len();
        let partners: Vec<usize> = infra(|| (0..self.bxs.len()).filter(|&j| j != i && self.bxs[j].len() == n).collect());
        let (xa, xb) = if let Some(pj) = pick_len(partners.len(), a[1]) {
            let j = partners[pj];
            let (hi, lo) = if i > j { (i, j) } else { (j, i) };
            let x_hi = self.bxs.remove(hi);
            let x_lo = self.bxs.remove(lo);
            if i > j { (x_hi, x_lo) } else { (x_lo, x_hi) }
        } else {
            let li = self.bxs[i].len_idx();
            let made = with_len!(li; N => lib(|| { let _g = enter(Ctx::Work); Bx::from(Box::new(GenericArray::<E, N>::generate(|_| E::make()))) }));
            match made {
                Ok(p) => (self.bxs.remove(i), p),
                Err(p) => return on_panic(cx, "generate (partner)", p),
            }
        };
        let mut cb = Cb::<E>::new(a[2]);
        let ia = with_bx!(&xa; x, N => { let _ = N::USIZE; ids_of(x.as_slice(), 966) });
        let ib = with_bx!(&xb; x, N => { let _ = N::USIZE; ids_of(x.as_slice(), 967) });
        let want: Vec<(u32, u32)> = infra(|| ia.iter().copied().zip(ib.iter().copied()).collect());
        let r = with_bx_pair!((xa, xb); l, r, N => { let _ = N::USIZE; lib(|| Bx::from(FunctionalSequence::zip(l, r, |l: E, r: E| zip_cb(&mut cb, l, r)))) }; _o => unreachable!());
        cx.cov(&[OpKind::Zip as u64, n as u64, 9, r.is_err() as u64, cb.calls as u64 * r.is_err() as u64]);
        match r {
            Ok(bx) => {
                let got = with_bx!(&bx; x, N => { let _ = N::USIZE; ids_of(x.as_slice(), 968) });
                self.check_cb_c08(cx, "boxed zip", &cb, &want, Some(got));
                self.put_bx(cx, bx);
            }
            Err(p) => {
                self.check_cb_c08(cx, "boxed zip", &cb, &want, None);
                on_panic(cx, "boxed zip", p);
            }
        }
        let stash = core::mem::take(&mut cb.stash);
        self.put_loose_all(cx, stash);
    }

}
