//! Batch driver: 16 single-threaded worker processes, crash bisecting, minimisation in a
//! fresh process, replay, known findings, evidence.

use crate::alloc::{enter, Ctx};
use crate::ledger::{N_SEAMS, SEAM_NAMES};
use crate::ops::*;
use crate::props::gen_trace;
use crate::rng::run_seed;
use crate::run::*;
use serde_json::{json, Value};
use std::collections::{BTreeMap, BTreeSet};
use std::path::{Path, PathBuf};
use std::process::{Command, Stdio};
use std::time::Instant;

pub const DEFAULT_SEED: u64 = 20261001;
/// root of the verification tree: $GASIM_ROOT (set by bin/check to the directory it lives in), default /verif
pub fn verif_root() -> String {
    std::env::var("GASIM_ROOT").unwrap_or_else(|_| "/verif".to_string())
}

pub fn env_seed() -> u64 {
    match std::env::var("VERIF_SEED") {
        Ok(s) => s.trim().parse::<u64>().unwrap_or_else(|_| {
            // any string is accepted: hash it
            let mut h = 0xcbf2_9ce4_8422_2325u64;
            for b in s.bytes() {
                h ^= b as u64;
                h = h.wrapping_mul(0x0000_0100_0000_01B3);
            }
            h
        }),
        Err(_) => DEFAULT_SEED,
    }
}

pub fn workers() -> usize {
    std::env::var("GASIM_WORKERS").ok().and_then(|s| s.parse().ok()).unwrap_or(16)
}

pub fn harness_error(msg: &str) -> ! {
    eprintln!("HARNESS-ERROR {msg}");
    std::process::exit(2);
}

fn tmp_dir() -> PathBuf {
    let p = PathBuf::from(format!("{}/target/tmp/run-{}", verif_root(), std::process::id()));
    std::fs::create_dir_all(&p).unwrap_or_else(|e| harness_error(&format!("cannot create {p:?}: {e}")));
    p
}

// ---------------------------------------------------------------------------
// known findings

#[derive(Clone, Debug)]
pub struct Known {
    pub property: String,
    pub key: String,
    pub status: String,
    pub what: String,
}

pub fn load_known() -> Vec<Known> {
    let p = format!("{}/known_findings.json", verif_root());
    let Ok(s) = std::fs::read_to_string(&p) else { return Vec::new() };
    let v: Value = serde_json::from_str(&s).unwrap_or_else(|e| harness_error(&format!("known_findings.json: {e}")));
    let mut out = Vec::new();
    for f in v["findings"].as_array().cloned().unwrap_or_default() {
        out.push(Known {
            property: f["property"].as_str().unwrap_or("").to_string(),
            key: f["key"].as_str().unwrap_or("").to_string(),
            status: f["status"].as_str().unwrap_or("").to_string(),
            what: f["what"].as_str().unwrap_or("").to_string(),
        });
    }
    out
}

/// the key under which a violation is matched against known findings: class and the operation
/// at which it was detected
pub fn finding_key(v: &Viol) -> String {
    format!("{}@{}", v.class, v.op_name)
}

// ---------------------------------------------------------------------------
// worker

pub struct WorkerOut {
    pub runs: u64,
    pub ops: u64,
    pub noop: u64,
    pub seam_calls: u64,
    pub fired: [u64; N_SEAMS],
    pub created: u64,
    pub events: u64,
    pub digest: u64,
    pub cover: BTreeSet<u64>,
    pub probes: BTreeMap<String, u64>,
    pub violation: Option<(u64, u64, Viol)>,
    pub known_hits: BTreeMap<String, u64>,
    pub samples: Vec<Value>,
}

pub fn worker(prop: Prop, base: u64, from: u64, to: u64, out: &Path, known_keys: &[String], want_samples: usize) {
    let _g = enter(Ctx::Infra);
    let mut w = WorkerOut {
        runs: 0,
        ops: 0,
        noop: 0,
        seam_calls: 0,
        fired: [0; N_SEAMS],
        created: 0,
        events: 0,
        digest: 0,
        cover: BTreeSet::new(),
        probes: BTreeMap::new(),
        violation: None,
        known_hits: BTreeMap::new(),
        samples: Vec::new(),
    };
    let progress = std::env::var_os("GASIM_PROGRESS").is_some();
    for i in from..to {
        if progress {
            // for crash isolation: the parent reads the last line
            println!("RUN {i}");
        }
        let seed = run_seed(base, prop.num(), i);
        let t = gen_trace(prop, seed);
        let r = run_trace(&t, false);
        w.runs += 1;
        w.ops += r.ops_executed;
        w.noop += r.ops_noop;
        w.seam_calls += r.seam_calls;
        w.created += r.elements_created;
        w.events += r.events;
        for k in 0..N_SEAMS {
            w.fired[k] += r.fired[k];
        }
        let mut x = i ^ r.hash;
        w.digest = w.digest.wrapping_add(crate::rng::splitmix(&mut x));
        w.cover.extend(r.cover.iter().copied());
        for (k, v) in r.probes {
            *w.probes.entry(k.to_string()).or_insert(0) += v;
        }
        if w.samples.len() < want_samples && !t.ops.is_empty() {
            w.samples.push(trace_to_json(&t));
        }
        if let Some(v) = r.violation {
            let key = finding_key(&v);
            if known_keys.iter().any(|k| *k == key) {
                *w.known_hits.entry(key).or_insert(0) += 1;
                continue;
            }
            w.violation = Some((i, seed, v));
            break;
        }
    }
    let j = json!({
        "runs": w.runs, "ops": w.ops, "noop": w.noop, "seam_calls": w.seam_calls,
        "fired": w.fired.to_vec(), "created": w.created, "events": w.events, "digest": w.digest,
        "cover": w.cover.iter().collect::<Vec<_>>(),
        "probes": w.probes,
        "known_hits": w.known_hits,
        "samples": w.samples,
        "violation": w.violation.as_ref().map(|(i, seed, v)| json!({"run": i, "seed": seed, "at_op": v.at_op, "op": v.op_name, "class": v.class, "detail": v.detail})),
    });
    std::fs::write(out, serde_json::to_vec(&j).unwrap()).unwrap_or_else(|e| harness_error(&format!("write {out:?}: {e}")));
}

fn parse_worker_out(p: &Path) -> Option<WorkerOut> {
    let s = std::fs::read(p).ok()?;
    let v: Value = serde_json::from_slice(&s).ok()?;
    let mut fired = [0u64; N_SEAMS];
    for (i, x) in v["fired"].as_array()?.iter().enumerate().take(N_SEAMS) {
        fired[i] = x.as_u64()?;
    }
    let violation = if v["violation"].is_null() {
        None
    } else {
        let x = &v["violation"];
        Some((
            x["run"].as_u64()?,
            x["seed"].as_u64()?,
            Viol {
                at_op: x["at_op"].as_u64()? as usize,
                op_name: x["op"].as_str()?.to_string(),
                class: x["class"].as_str()?.to_string(),
                detail: x["detail"].as_str()?.to_string(),
            },
        ))
    };
    Some(WorkerOut {
        runs: v["runs"].as_u64()?,
        ops: v["ops"].as_u64()?,
        noop: v["noop"].as_u64()?,
        seam_calls: v["seam_calls"].as_u64()?,
        fired,
        created: v["created"].as_u64()?,
        events: v["events"].as_u64()?,
        digest: v["digest"].as_u64()?,
        cover: v["cover"].as_array()?.iter().filter_map(|x| x.as_u64()).collect(),
        probes: v["probes"].as_object()?.iter().map(|(k, x)| (k.clone(), x.as_u64().unwrap_or(0))).collect(),
        violation,
        known_hits: v["known_hits"].as_object()?.iter().map(|(k, x)| (k.clone(), x.as_u64().unwrap_or(0))).collect(),
        samples: v["samples"].as_array()?.clone(),
    })
}

fn self_exe() -> PathBuf {
    std::env::current_exe().unwrap_or_else(|e| harness_error(&format!("current_exe: {e}")))
}

pub struct ChildEnd {
    pub code: Option<i32>,
    pub signal: Option<i32>,
    pub stdout_tail: String,
    pub stderr_tail: String,
}

/// run another executable (the stack-lane binary) and collect how it ended
pub fn run_exe(exe: &str, args: &[String]) -> ChildEnd {
    use std::os::unix::process::ExitStatusExt;
    let out = Command::new(exe)
        .args(args)
        .env("RUST_BACKTRACE", "0")
        .stdin(Stdio::null())
        .stdout(Stdio::piped())
        .stderr(Stdio::piped())
        .output()
        .unwrap_or_else(|e| harness_error(&format!("spawn {exe}: {e}")));
    let tail = |b: &[u8]| {
        let s = String::from_utf8_lossy(b);
        let lines: Vec<&str> = s.lines().collect();
        let k = lines.len().saturating_sub(6);
        lines[k..].join("\n")
    };
    ChildEnd { code: out.status.code(), signal: out.status.signal(), stdout_tail: tail(&out.stdout), stderr_tail: tail(&out.stderr) }
}

pub fn run_child(args: &[String], envs: &[(&str, &str)], capture: bool) -> ChildEnd {
    use std::os::unix::process::ExitStatusExt;
    let mut c = Command::new(self_exe());
    c.args(args);
    c.env("RUST_BACKTRACE", "0");
    for (k, v) in envs {
        c.env(k, v);
    }
    c.stdin(Stdio::null());
    if capture {
        c.stdout(Stdio::piped()).stderr(Stdio::piped());
    } else {
        c.stdout(Stdio::null()).stderr(Stdio::piped());
    }
    let out = c.output().unwrap_or_else(|e| harness_error(&format!("spawn: {e}")));
    let tail = |b: &[u8]| {
        let s = String::from_utf8_lossy(b);
        let lines: Vec<&str> = s.lines().collect();
        let k = lines.len().saturating_sub(40);
        lines[k..].join("\n")
    };
    ChildEnd {
        code: out.status.code(),
        signal: out.status.signal(),
        stdout_tail: tail(&out.stdout),
        stderr_tail: tail(&out.stderr),
    }
}

pub struct Batch {
    pub total: WorkerOut,
    pub crash: Option<(u64, u64, Viol)>,
    pub truncated: bool,
}

/// Run runs [0, n) of `prop` under `base` on `nw` worker processes and merge.
pub fn run_batch(prop: Prop, base: u64, n: u64, nw: usize, known_keys: &[String], deadline: Option<Instant>) -> Batch {
    let dir = tmp_dir();
    let nw = nw.max(1).min(n.max(1) as usize);
    let per = (n + nw as u64 - 1) / nw as u64;
    let mut kids = Vec::new();
    for w in 0..nw {
        let from = w as u64 * per;
        let to = ((w as u64 + 1) * per).min(n);
        if from >= to {
            continue;
        }
        let out = dir.join(format!("w{w}.json"));
        let _ = std::fs::remove_file(&out);
        let mut c = Command::new(self_exe());
        c.arg("worker")
            .arg(prop.name())
            .arg(base.to_string())
            .arg(from.to_string())
            .arg(to.to_string())
            .arg(&out)
            .arg(if w == 0 { "3" } else { "0" })
            .arg(known_keys.join("|"))
            .env("RUST_BACKTRACE", "0")
            .stdin(Stdio::null())
            .stdout(Stdio::null())
            .stderr(Stdio::piped());
        let child = c.spawn().unwrap_or_else(|e| harness_error(&format!("spawn worker: {e}")));
        kids.push((w, from, to, out, child));
    }
    let mut total = WorkerOut {
        runs: 0,
        ops: 0,
        noop: 0,
        seam_calls: 0,
        fired: [0; N_SEAMS],
        created: 0,
        events: 0,
        digest: 0,
        cover: BTreeSet::new(),
        probes: BTreeMap::new(),
        violation: None,
        known_hits: BTreeMap::new(),
        samples: Vec::new(),
    };
    let mut crash: Option<(u64, u64, Viol)> = None;
    let _ = deadline;
    for (_w, from, to, out, child) in kids {
        use std::os::unix::process::ExitStatusExt;
        let o = child.wait_with_output().unwrap_or_else(|e| harness_error(&format!("wait: {e}")));
        if o.status.code() == Some(2) {
            harness_error(&format!("worker failed: {}", String::from_utf8_lossy(&o.stderr)));
        }
        let parsed = if o.status.success() { parse_worker_out(&out) } else { None };
        match parsed {
            Some(wo) => merge(&mut total, wo),
            None => {
                // the worker died: isolate the crashing run by bisecting its range in fresh children
                let sig = o.status.signal();
                let stderr = String::from_utf8_lossy(&o.stderr).to_string();
                let (done, cr) = isolate_crash(prop, base, from, to, known_keys, sig, &stderr);
                for wo in done {
                    merge(&mut total, wo);
                }
                if let Some(c) = cr {
                    if crash.as_ref().map_or(true, |x| c.0 < x.0) {
                        crash = Some(c);
                    }
                }
            }
        }
        let _ = std::fs::remove_file(&out);
    }
    let _ = std::fs::remove_dir_all(&dir);
    Batch { total, crash, truncated: false }
}

fn merge(t: &mut WorkerOut, w: WorkerOut) {
    t.runs += w.runs;
    t.ops += w.ops;
    t.noop += w.noop;
    t.seam_calls += w.seam_calls;
    t.created += w.created;
    t.events += w.events;
    t.digest = t.digest.wrapping_add(w.digest);
    for k in 0..N_SEAMS {
        t.fired[k] += w.fired[k];
    }
    t.cover.extend(w.cover);
    for (k, v) in w.probes {
        *t.probes.entry(k).or_insert(0) += v;
    }
    for (k, v) in w.known_hits {
        *t.known_hits.entry(k).or_insert(0) += v;
    }
    if t.samples.len() < 3 {
        t.samples.extend(w.samples);
    }
    if let Some(v) = w.violation {
        if t.violation.as_ref().map_or(true, |x| v.0 < x.0) {
            t.violation = Some(v);
        }
    }
}

/// A worker over [from, to) died. Re-run it with progress markers to find the run that kills
/// the process (runs are deterministic), then return the results of the part before it.
fn isolate_crash(prop: Prop, base: u64, from: u64, to: u64, known_keys: &[String], _sig: Option<i32>, _stderr: &str) -> (Vec<WorkerOut>, Option<(u64, u64, Viol)>) {
    let dir = tmp_dir();
    let out = dir.join(format!("iso-{from}.json"));
    let args: Vec<String> = vec![
        "worker".into(),
        prop.name().into(),
        base.to_string(),
        from.to_string(),
        to.to_string(),
        out.to_string_lossy().to_string(),
        "0".into(),
        known_keys.join("|"),
    ];
    let end = run_child(&args, &[("GASIM_PROGRESS", "1")], true);
    if end.code == Some(0) {
        // did not crash this time: non-determinism — a harness error, never a violation
        harness_error(&format!("worker over runs {from}..{to} died once and completed on re-execution (non-deterministic)"));
    }
    let last = end.stdout_tail.lines().rev().find_map(|l| l.strip_prefix("RUN ").and_then(|x| x.trim().parse::<u64>().ok()));
    let Some(run) = last else { harness_error(&format!("worker over runs {from}..{to} died before its first run: {}", end.stderr_tail)) };
    // results of the runs before the crashing one
    let mut done = Vec::new();
    if run > from {
        let out2 = dir.join(format!("iso2-{from}.json"));
        let args2: Vec<String> = vec![
            "worker".into(),
            prop.name().into(),
            base.to_string(),
            from.to_string(),
            run.to_string(),
            out2.to_string_lossy().to_string(),
            "0".into(),
            known_keys.join("|"),
        ];
        let e2 = run_child(&args2, &[], false);
        if e2.code != Some(0) {
            harness_error(&format!("prefix {from}..{run} of a crashing range did not complete: {}", e2.stderr_tail));
        }
        if let Some(wo) = parse_worker_out(&out2) {
            done.push(wo);
        }
        let _ = std::fs::remove_file(&out2);
    }
    let seed = run_seed(base, prop.num(), run);
    let t = gen_trace(prop, seed);
    let v = crash_violation(&t).unwrap_or_else(|| harness_error(&format!("run {run} killed its worker but not a fresh process")));
    let _ = std::fs::remove_file(&out);
    (done, Some((run, seed, v)))
}

/// Execute a trace in a child process; if the process dies, return the crash as a violation
/// located at the first operation whose prefix already kills the process.
pub fn crash_violation(t: &Trace) -> Option<Viol> {
    let dir = tmp_dir();
    let f = dir.join(format!("crash-{}.json", t.seed));
    let try_prefix = |k: usize| -> ChildEnd {
        let mut p = t.clone();
        p.ops.truncate(k);
        std::fs::write(&f, serde_json::to_vec(&trace_to_json(&p)).unwrap()).unwrap();
        run_child(&["exec".into(), f.to_string_lossy().to_string()], &[], true)
    };
    let full = try_prefix(t.ops.len());
    if full.signal.is_none() && full.code != Some(101) && full.code != Some(134) {
        let _ = std::fs::remove_file(&f);
        return None;
    }
    // smallest crashing prefix (monotone: execution is deterministic)
    let (mut lo, mut hi) = (0usize, t.ops.len());
    let mut end = full;
    while lo + 1 < hi {
        let mid = (lo + hi) / 2;
        let e = try_prefix(mid);
        if e.signal.is_some() || e.code == Some(101) || e.code == Some(134) {
            hi = mid;
            end = e;
        } else {
            lo = mid;
        }
    }
    let _ = std::fs::remove_file(&f);
    let at = hi.saturating_sub(1);
    let signame = match end.signal {
        Some(6) => "SIGABRT".to_string(),
        Some(11) => "SIGSEGV".to_string(),
        Some(7) => "SIGBUS".to_string(),
        Some(4) => "SIGILL".to_string(),
        Some(s) => format!("signal {s}"),
        None => format!("exit code {:?}", end.code),
    };
    let reason = end.stderr_tail.lines().rev().find(|l| !l.trim().is_empty()).unwrap_or("").to_string();
    let class = if reason.contains("unsafe precondition") {
        "crash-unsafe-precondition"
    } else if reason.contains("memory allocation of") {
        "crash-alloc-error"
    } else if end.signal == Some(11) || end.signal == Some(7) {
        "crash-memory-fault"
    } else {
        "crash-abort"
    };
    Some(Viol {
        at_op: at,
        op_name: t.ops.get(at).map(|o| o.kind.name().to_string()).unwrap_or_else(|| "teardown".into()),
        class: class.to_string(),
        detail: format!("the process was killed ({signame}) while executing this operation: {reason}"),
    })
}

// ---------------------------------------------------------------------------
// minimisation

pub fn same_class(a: &Viol, b: &Viol) -> bool {
    a.class == b.class
}

fn test_trace(t: &Trace, want: &Viol, crash: bool) -> Option<Viol> {
    if crash {
        crash_violation(t).filter(|v| same_class(v, want))
    } else {
        run_trace(t, false).violation.filter(|v| same_class(v, want))
    }
}

/// Delta-debug a failing trace while the same violation class persists.
pub fn minimise(t: &Trace, want: &Viol, budget: usize) -> (Trace, Viol, usize) {
    let crash = want.class.starts_with("crash-");
    let mut best = t.clone();
    let mut best_v = want.clone();
    let mut tests = 0usize;
    // cut everything after the detecting operation first
    if want.at_op + 1 < best.ops.len() {
        let mut c = best.clone();
        c.ops.truncate(want.at_op + 1);
        tests += 1;
        if let Some(v) = test_trace(&c, want, crash) {
            best = c;
            best_v = v;
        }
    }
    let mut progress = true;
    while progress && tests < budget {
        progress = false;
        // 1. drop chunks of operations
        let mut chunk = (best.ops.len() / 2).max(1);
        while chunk >= 1 && tests < budget {
            let mut i = 0;
            while i < best.ops.len() && tests < budget {
                let mut c = best.clone();
                let end = (i + chunk).min(c.ops.len());
                c.ops.drain(i..end);
                tests += 1;
                if let Some(v) = test_trace(&c, want, crash) {
                    best = c;
                    best_v = v;
                    progress = true;
                } else {
                    i += chunk;
                }
            }
            if chunk == 1 {
                break;
            }
            chunk /= 2;
        }
        // 2. drop faults
        for i in 0..best.ops.len() {
            let mut j = 0;
            while j < best.ops[i].faults.len() && tests < budget {
                let mut c = best.clone();
                c.ops[i].faults.remove(j);
                tests += 1;
                if let Some(v) = test_trace(&c, want, crash) {
                    best = c;
                    best_v = v;
                    progress = true;
                } else {
                    j += 1;
                }
            }
        }
        // 3. lower arguments and fault ordinals
        for i in 0..best.ops.len() {
            for a in 0..N_ARGS {
                let cur = best.ops[i].args[a];
                if cur == 0 {
                    continue;
                }
                let mut cands = vec![0u32];
                if cur >= 100_000 {
                    cands.push(100_000);
                }
                if cur >= 1000 {
                    cands.push(1000);
                }
                cands.push(cur / 2);
                cands.push(cur - 1);
                for cand in cands {
                    if cand >= best.ops[i].args[a] || tests >= budget {
                        continue;
                    }
                    let mut c = best.clone();
                    c.ops[i].args[a] = cand;
                    tests += 1;
                    if let Some(v) = test_trace(&c, want, crash) {
                        best = c;
                        best_v = v;
                        progress = true;
                        break;
                    }
                }
            }
            for j in 0..best.ops[i].faults.len() {
                let cur = best.ops[i].faults[j].1;
                for cand in [0u32, cur / 2, cur.saturating_sub(1)] {
                    if cand >= best.ops[i].faults[j].1 || tests >= budget {
                        continue;
                    }
                    let mut c = best.clone();
                    c.ops[i].faults[j].1 = cand;
                    tests += 1;
                    if let Some(v) = test_trace(&c, want, crash) {
                        best = c;
                        best_v = v;
                        progress = true;
                        break;
                    }
                }
            }
        }
    }
    (best, best_v, tests)
}

pub fn replay_json(t: &Trace, v: &Viol, hash: u64, original_ops: usize, tests: usize) -> Value {
    let mut j = trace_to_json(t);
    j["violation"] = json!({"class": v.class, "at_op": v.at_op, "op": v.op_name, "detail": v.detail, "key": finding_key(v)});
    j["event_hash"] = json!(format!("{hash:016x}"));
    j["minimised_from_ops"] = json!(original_ops);
    j["minimiser_tests"] = json!(tests);
    j
}

/// `gasim minimise <in> <out>`: runs in a fresh process.
pub fn minimise_cmd(inp: &Path, out: &Path) {
    let v: Value = serde_json::from_slice(&std::fs::read(inp).unwrap_or_else(|e| harness_error(&format!("{inp:?}: {e}")))).unwrap_or_else(|e| harness_error(&format!("{inp:?}: {e}")));
    let t = trace_from_json(&v).unwrap_or_else(|e| harness_error(&e));
    let want = Viol {
        at_op: v["violation"]["at_op"].as_u64().unwrap_or(0) as usize,
        op_name: v["violation"]["op"].as_str().unwrap_or("").to_string(),
        class: v["violation"]["class"].as_str().unwrap_or("").to_string(),
        detail: v["violation"]["detail"].as_str().unwrap_or("").to_string(),
    };
    let crash = want.class.starts_with("crash-");
    // confirm from the recorded concrete trace first
    let conf = match test_trace(&t, &want, crash) {
        Some(c) => c,
        None => {
            // How a read of uninitialised or released memory shows itself depends on what the heap of the
            // process held before (the worker had executed other runs, this process has not): accept whatever
            // violation the recorded trace produces here, under its own class, and minimise that. A trace that
            // shows nothing at all in a fresh process stays a harness error - no replay file could reproduce it.
            let alt = if crash { crash_violation(&t) } else { run_trace(&t, false).violation.or_else(|| crash_violation(&t)) };
            match alt {
                Some(v) => {
                    eprintln!("note: recorded as {}, shows as {} in a fresh process", want.class, v.class);
                    v
                }
                None => harness_error(&format!("violation {} did not reproduce from its recorded trace", want.class)),
            }
        }
    };
    let crash = conf.class.starts_with("crash-");
    let budget = if std::env::var_os("GASIM_NO_SHRINK").is_some() { 0 } else if crash { 150 } else { 4000 };
    let (mt, mv, tests) = if budget == 0 { (t.clone(), conf.clone(), 0) } else { minimise(&t, &conf, budget) };
    let hash = if crash { 0 } else { run_trace(&mt, false).hash };
    let j = replay_json(&mt, &mv, hash, t.ops.len(), tests);
    std::fs::write(out, serde_json::to_string_pretty(&j).unwrap()).unwrap_or_else(|e| harness_error(&format!("{out:?}: {e}")));
}

/// `gasim replay <file>`: execute exactly that trace in this fresh process.
pub fn replay_cmd(file: &Path) -> i32 {
    let v: Value = serde_json::from_slice(&std::fs::read(file).unwrap_or_else(|e| harness_error(&format!("{file:?}: {e}")))).unwrap_or_else(|e| harness_error(&format!("{file:?}: {e}")));
    if v["lane"].as_str() == Some("miri") {
        let code = crate::lanes::replay_miri(file);
        if code == 1 {
            println!("VIOLATION property={} replay={}", v["property"].as_str().unwrap_or("?"), file.display());
        }
        return code;
    }
    if v.get("lane").is_some() {
        let code = crate::lanes::replay_lane(&v).unwrap_or_else(|| harness_error("malformed lane replay file"));
        if code == 1 {
            println!("VIOLATION property={} replay={}", v["property"].as_str().unwrap_or("?"), file.display());
        }
        return code;
    }
    let t = trace_from_json(&v).unwrap_or_else(|e| harness_error(&e));
    let want_class = v["violation"]["class"].as_str().unwrap_or("").to_string();
    let want_hash = v["event_hash"].as_str().unwrap_or("").to_string();
    let got = if want_class.starts_with("crash-") {
        crash_violation(&t).map(|v| (v, 0u64))
    } else {
        let r = run_trace(&t, true);
        println!("events: {}", serde_json::to_string(&log_to_json(&r.log)).unwrap());
        let h = r.hash;
        r.violation.map(|v| (v, h))
    };
    match got {
        Some((viol, h)) => {
            let hs = format!("{h:016x}");
            println!("violation class={} at_op={} ({}) : {}", viol.class, viol.at_op, viol.op_name, viol.detail);
            println!("event_hash={hs}");
            if !want_class.is_empty() && (viol.class != want_class || (!want_class.starts_with("crash-") && hs != want_hash)) {
                println!("note: the file records class={want_class} event_hash={want_hash}; the current tree behaves differently");
            } else if !want_class.is_empty() {
                println!("reproduced exactly (same class, same event hash)");
            }
            println!("VIOLATION property={} replay={}", t.prop.name(), file.display());
            1
        }
        None => {
            println!("no violation: the trace runs clean on the current tree");
            0
        }
    }
}

// ---------------------------------------------------------------------------
// check

pub struct Tier {
    pub name: &'static str,
    pub runs: u64,
}

pub fn tier_runs(prop: Prop, tier: &str) -> u64 {
    let quick = match prop {
        Prop::C03 => 300_000,
        Prop::C04 => 500_000,
        Prop::C05 => 400_000,
        Prop::C06 => 400_000,
        Prop::C07 => 1_200_000,
        Prop::C08 => 400_000,
        Prop::C15 => 500_000,
        Prop::C16 => 400_000,
        Prop::C17 => 600_000,
    };
    let scale: u64 = match tier {
        "thorough" => 30,
        _ => 1,
    };
    let n = quick * scale;
    std::env::var("GASIM_RUNS").ok().and_then(|s| s.parse().ok()).unwrap_or(n)
}

pub fn level_of(prop: Prop) -> &'static str {
    match prop {
        Prop::C03 | Prop::C06 | Prop::C08 | Prop::C15 => "exploration",
        _ => "fault_enumeration",
    }
}

pub fn rule_of(prop: Prop) -> String {
    let common = "runs are seeded operation histories over a pool of live GenericArray objects (lengths 0..=8 dense, {9,10,11,12,15,16,17,31,32,33,64,65,100,101,1024,1025,2047,4096,4100} sparse; element kinds Tr = drop-tracked with heap payload, Al = the same in a 32-byte-aligned shell, Zt = drop-tracked zero-sized, Pl = plain no-Drop, Zp = zero-sized plain; zip/map also with a second plain element type); run i of a batch uses seed splitmix(VERIF_SEED, property, i). ";
    let m = match prop {
        Prop::C03 => "A case is one executed operation; distinct_nontrivial counts distinct tuples (operation kind, operand length(s), receiver/argument form, arguments that select a code path) of operations that actually acted on an object (no-ops on an empty pool are excluded).",
        Prop::C04 => "A case is one operation; distinct_nontrivial counts distinct tuples (operation kind, length, form, fault fired?, number of callback calls made before the injected panic) — i.e. distinct crash points reached with the panic actually fired, plus the fault-free tuples of the surrounding history.",
        Prop::C05 => "A case is one operation; distinct_nontrivial counts distinct tuples (operation kind, length, iterator front/back position, argument) of operations executed; destructor-panic faults fired are reported separately per seam.",
        Prop::C06 => "A case is one iterator call; distinct_nontrivial counts distinct tuples (operation, N, front position, back position, argument) reached on by-value iterators.",
        Prop::C07 => "A case is one collect call; distinct_nontrivial counts distinct tuples (entry point, N, count-N, hint policy, fused?, source panic fired?, poll index of the panic).",
        Prop::C08 => "A case is one callback-bearing operation; distinct_nontrivial counts distinct tuples (operation, N, receiver/argument form, panicked?, calls before panic).",
        Prop::C15 => "A case is one heap-interop operation; distinct_nontrivial counts distinct tuples (operation, N, clamp(L-N), source is Box<[T]>?, capacity==len?).",
        Prop::C16 => "A case is one operation under the recording allocator; distinct_nontrivial counts distinct tuples (operation, N, form, fault fired?, calls before panic); allocation-failure children are reported separately.",
        Prop::C17 => "A case is one serde operation; distinct_nontrivial counts distinct tuples (operation, N, count-N, up-front hint class, running hint class, element-error class, format, torn?).",
    };
    format!("{common}{m}")
}

/// Finite sub-spaces of the dense lane (N in 0..=8) whose coverage keys can be enumerated:
/// how much of them did the seeded search reach? (measured reach of a random search, not enumeration)
fn dense_space_reach(prop: Prop, cover: &BTreeSet<u64>) -> Option<Value> {
    use crate::world::cov_hash;
    let mut total = 0u64;
    let mut hit = 0u64;
    let mut missing: Vec<String> = Vec::new();
    let mut probe = |parts: &[u64], name: String| {
        total += 1;
        if cover.contains(&cov_hash(parts)) {
            hit += 1;
        } else if missing.len() < 12 {
            missing.push(name);
        }
    };
    match prop {
        Prop::C06 | Prop::C05 => {
            // (operation, N, front, back, argument) over every reachable position
            let plain = [OpKind::ItNext, OpKind::ItNextBack, OpKind::ItLen, OpKind::ItWrite, OpKind::ItClone, OpKind::ItFold, OpKind::ItRfold, OpKind::ItCount, OpKind::ItLast, OpKind::ItDebug, OpKind::ItCollect, OpKind::DropObj];
            for n in 0..=8u64 {
                for front in 0..=n {
                    for back in front..=n {
                        let len = back - front;
                        for k in plain {
                            if prop == Prop::C05 && !matches!(k, OpKind::ItCount | OpKind::ItLast | OpKind::DropObj | OpKind::ItCollect) {
                                continue;
                            }
                            probe(&[k as u64, n, front, back, 0], format!("{} N={n} front={front} back={back}", k.name()));
                        }
                        for k in [OpKind::ItNth, OpKind::ItNthBack] {
                            for arg in 0..=len + 2 {
                                probe(&[k as u64, n, front, back, arg], format!("{}({arg}) N={n} front={front} back={back}", k.name()));
                            }
                        }
                    }
                }
            }
        }
        Prop::C04 | Prop::C08 | Prop::C16 => {
            // (operation form, N, panic at call k) with the fault fired
            for n in 1..=8u64 {
                for k in 0..n {
                    if prop != Prop::C16 {
                        for form in 0..3u64 {
                            probe(&[OpKind::Generate as u64, n, form, 1, k], format!("generate form {form} N={n} panic at call {k}"));
                        }
                        for form in 0..6u64 {
                            if form == 3 { continue; }
                            probe(&[OpKind::Map as u64, n, form, 1, k], format!("map form {form} N={n} panic at call {k}"));
                        }
                        for form in 0..3u64 {
                            probe(&[OpKind::Fold as u64, n, form, 1, k], format!("fold form {form} N={n} panic at call {k}"));
                        }
                        for form in 0..9u64 {
                            probe(&[OpKind::Zip as u64, n, form, 1, k], format!("zip form {form} N={n} panic at call {k}"));
                            for side in 1..=2u64 {
                                probe(&[OpKind::Zip as u64, n, form, 1, k, side], format!("zip form {form} plain side {side} N={n} panic at call {k}"));
                            }
                        }
                    }
                    probe(&[OpKind::Map as u64, n, 3, 1, k], format!("boxed map N={n} panic at call {k}"));
                    probe(&[OpKind::Fold as u64, n, 3, 1, k], format!("boxed fold N={n} panic at call {k}"));
                    probe(&[OpKind::Zip as u64, n, 9, 1, k], format!("boxed zip N={n} panic at call {k}"));
                    probe(&[OpKind::BoxedGenerate as u64, n, 1, k], format!("boxed generate N={n} panic at call {k}"));
                }
            }
        }
        _ => return None,
    }
    Some(json!({"space": "dense lane N<=8, enumerated from the generated tables", "tuples": total, "reached": hit, "first_unreached": missing}))
}

pub struct CheckResult {
    pub exit: i32,
}

fn write_evidence(prop: Prop, tier: &str, seed: u64, b: &Batch, wall: f64, violations: i64, extra: Value) {
    let t = &b.total;
    let mut fired = serde_json::Map::new();
    for k in 0..N_SEAMS {
        fired.insert(SEAM_NAMES[k].to_string(), json!(t.fired[k]));
    }
    let mut samples = t.samples.clone();
    samples.truncate(3);
    if samples.is_empty() {
        samples.push(json!("no run completed"));
    }
    let mut cov = json!({
        "evaluations": t.ops.saturating_sub(t.noop).max(1),
        "distinct_nontrivial": t.cover.len(),
        "rule": rule_of(prop),
        "samples": samples,
        "exhaustive": false,
        "runs": t.runs,
        "operations_executed": t.ops,
        "operations_noop": t.noop,
        "seam_callbacks": t.seam_calls,
        "elements_created": t.created,
        "ledger_events": t.events,
        "faults_fired": fired,
        "probes": t.probes,
        "batch_digest": format!("{:016x}", t.digest),
        "runs_per_hour": if wall > 0.0 { (t.runs as f64 / wall * 3600.0) as u64 } else { 0 },
        "simulated_time": "none: the crate has no clock or timer; progress is counted in logical steps (operations and seam callbacks)",
        "real_components": ["generic_array (built from /repo working tree, features alloc serde internals)", "typenum", "core/alloc/std (Vec, Box, vec::IntoIter, slice drop glue, catch_unwind)", "serde, serde_json, bincode (C17 real-format operations)"],
        "stub_components": ["element types Tr/Zt/Pl", "closures", "source iterators", "global allocator wrapper (delegates to System)", "scripted serde Deserializer/SeqAccess and recording Serializer", "reference models"],
        "known_finding_hits": t.known_hits,
    });
    if let Some(o) = extra.as_object() {
        for (k, v) in o {
            cov[k] = v.clone();
        }
    }
    let ev = json!({
        "property_id": prop.name(),
        "tier": tier,
        "seed": seed,
        "level": level_of(prop),
        "coverage": cov,
        "assumptions": [
            "a clean batch is evidence over the sampled histories, fault points and lengths, not proof",
            "lengths outside the two lanes and element types other than Tr/Al/Zt/Pl/Zp (+ Plain in mixed zip/map) are not explored",
            "the allocator oracle trusts std::alloc::System; the ledger trusts reads of id/canary through references the library hands out",
        ],
        "wall_s": wall,
        "violations": violations,
    });
    let dir = format!("{}/evidence", verif_root());
    let _ = std::fs::create_dir_all(&dir);
    let p = format!("{dir}/{}.json", prop.name());
    std::fs::write(&p, serde_json::to_string_pretty(&ev).unwrap()).unwrap_or_else(|e| harness_error(&format!("{p}: {e}")));
}

pub fn check(prop: Prop, tier: &str) -> i32 {
    let t0 = Instant::now();
    let seed = env_seed();
    println!("VERIF_SEED={seed} property={} tier={tier}", prop.name());
    let known = load_known();
    let known_keys: Vec<String> = known.iter().filter(|k| k.status == "known" && k.property == prop.name()).map(|k| k.key.clone()).collect();
    let n = tier_runs(prop, tier);
    let nw = workers();
    let b = run_batch(prop, seed, n, nw, &known_keys, None);
    let mut extra = serde_json::Map::new();
    let mut exit = 0;
    let mut violations = 0i64;

    // property-specific environment lanes
    let mut lane_violation: Option<String> = None;
    if prop == Prop::C15 {
        let (v, info) = crate::lanes::small_stack_lane(tier);
        extra.insert("small_stack_lane".into(), info);
        lane_violation = v;
    }
    if prop == Prop::C16 {
        let (v, info) = crate::lanes::alloc_failure_lane(seed, tier);
        extra.insert("alloc_failure_lane".into(), info);
        lane_violation = v;
    }
    if tier == "thorough" && matches!(prop, Prop::C03 | Prop::C04 | Prop::C05 | Prop::C06 | Prop::C07 | Prop::C17) && std::env::var_os("GASIM_NO_MIRI").is_none() {
        let each: u64 = std::env::var("GASIM_MIRI_RUNS").ok().and_then(|s| s.parse().ok()).unwrap_or(24);
        let (v, info) = crate::lanes::miri_lane(prop, seed, nw, each);
        extra.insert("miri_lane".into(), info);
        if lane_violation.is_none() {
            lane_violation = v;
        }
    }

    if let Some(v) = dense_space_reach(prop, &b.total.cover) {
        println!("dense-lane reach: {}/{} tuples", v["reached"], v["tuples"]);
        extra.insert("dense_lane_reach".into(), v);
    }
    if tier == "thorough" && b.total.violation.is_none() && b.crash.is_none() {
        // determinism self-check: the same runs on a different number of worker processes
        let m = n.min(40_000);
        let d1 = run_batch(prop, seed, m, 16, &known_keys, None);
        let d2 = run_batch(prop, seed, m, 5, &known_keys, None);
        let same = d1.total.digest == d2.total.digest && d1.total.cover == d2.total.cover && d1.total.events == d2.total.events;
        extra.insert("determinism_selfcheck".into(), json!({"runs": m, "workers": [16, 5], "digests": [format!("{:016x}", d1.total.digest), format!("{:016x}", d2.total.digest)], "identical": same}));
        if !same {
            harness_error(&format!("non-determinism: the first {m} runs give digest {:016x} on 16 workers and {:016x} on 5", d1.total.digest, d2.total.digest));
        }
    }
    for (k, hits) in &b.total.known_hits {
        let what = known.iter().find(|x| &x.key == k).map(|x| x.what.clone()).unwrap_or_default();
        println!("KNOWN-FINDING: property={} {k} ({hits} runs): {what}", prop.name());
    }
    let first = match (&b.total.violation, &b.crash) {
        (Some(v), Some(c)) => Some(if c.0 < v.0 { c.clone() } else { v.clone() }),
        (Some(v), None) => Some(v.clone()),
        (None, Some(c)) => Some(c.clone()),
        (None, None) => None,
    };
    if let Some((run, rseed, v)) = first {
        violations += 1;
        let t = gen_trace(prop, rseed);
        // hand over to a fresh process for confirmation + minimisation
        let dir = tmp_dir();
        let inp = dir.join("viol.json");
        let mut j = trace_to_json(&t);
        j["violation"] = json!({"class": v.class, "at_op": v.at_op, "op": v.op_name, "detail": v.detail});
        std::fs::write(&inp, serde_json::to_vec(&j).unwrap()).unwrap();
        let _ = std::fs::create_dir_all(format!("{}/replays", verif_root()));
        let out = PathBuf::from(format!("{}/replays/{}-{}.json", verif_root(), prop.name(), rseed));
        let mut end = run_child(&["minimise".into(), inp.to_string_lossy().to_string(), out.to_string_lossy().to_string()], &[], true);
        if end.code != Some(0) {
            // candidates run inside the minimiser's process; one that makes the library trample memory can kill
            // it. The violation itself stands: confirm the recorded trace once more and report it unshrunk.
            eprintln!("note: the minimiser process died ({:?}/{:?}); reporting the trace as recorded", end.code, end.signal);
            end = run_child(&["minimise".into(), inp.to_string_lossy().to_string(), out.to_string_lossy().to_string()], &[("GASIM_NO_SHRINK", "1")], true);
        }
        let _ = std::fs::remove_dir_all(&dir);
        if end.code != Some(0) {
            harness_error(&format!("minimiser failed for run {run} seed {rseed} ({}): {} {}", v.class, end.stdout_tail, end.stderr_tail));
        }
        let mj: Value = serde_json::from_slice(&std::fs::read(&out).unwrap()).unwrap();
        println!(
            "violation in run {run} (seed {rseed}): {} — {}",
            mj["violation"]["class"].as_str().unwrap_or(""),
            mj["violation"]["detail"].as_str().unwrap_or("")
        );
        println!("minimised {} -> {} operations: {}", t.ops.len(), mj["ops"].as_array().map_or(0, |a| a.len()), serde_json::to_string(&mj["ops"]).unwrap());
        println!("VIOLATION property={} replay={}", prop.name(), out.display());
        extra.insert("first_violation".into(), json!({"run": run, "seed": rseed, "class": v.class, "replay": out.to_string_lossy()}));
        exit = 1;
    }
    if let Some(p) = lane_violation {
        violations += 1;
        println!("VIOLATION property={} replay={p}", prop.name());
        exit = 1;
    }
    let wall = t0.elapsed().as_secs_f64();
    write_evidence(prop, tier, seed, &b, wall, violations, Value::Object(extra));
    println!(
        "{}: {} runs, {} operations ({} no-op), {} seam callbacks, {} distinct coverage tuples, faults fired {:?}, {:.1}s, digest {:016x}",
        prop.name(),
        b.total.runs,
        b.total.ops,
        b.total.noop,
        b.total.seam_calls,
        b.total.cover.len(),
        b.total.fired,
        wall,
        b.total.digest
    );
    if exit == 0 {
        println!("OK property={} held on everything explored", prop.name());
    }
    exit
}

/// `gasim determinism [runs]`: every property, {1, 4, 16} workers, two executions each, in separate
/// processes; per-batch digests (a sum over per-run event hashes) must be identical.
pub fn determinism_cmd(runs: u64) -> i32 {
    let seed = env_seed();
    let mut bad = 0;
    for &prop in ALL_PROPS {
        let mut digests = Vec::new();
        for &nw in &[1usize, 4, 16] {
            for _rep in 0..2 {
                let b = run_batch(prop, seed, runs, nw, &[], None);
                digests.push((nw, b.total.digest, b.total.events, b.total.cover.len()));
            }
        }
        let first = (digests[0].1, digests[0].2, digests[0].3);
        let ok = digests.iter().all(|d| (d.1, d.2, d.3) == first);
        println!("{} {} runs: digest {:016x} events {} cover {} across {:?} workers x2 -> {}", prop.name(), runs, first.0, first.1, first.2, [1, 4, 16], if ok { "identical" } else { "DIVERGED" });
        if !ok {
            bad += 1;
            println!("  {:?}", digests);
        }
    }
    if bad > 0 {
        eprintln!("HARNESS-ERROR non-determinism in {bad} properties");
        2
    } else {
        0
    }
}
