//! Element kinds owned by the simulator.
//!
//! * `Tr` — tracked, needs drop, carries identity, a canary and a heap payload.
//! * `Zt` — tracked zero-sized type with `Drop` (counted, no identity).
//! * `Pl` — plain non-`Copy` struct without `Drop` (`needs_drop == false`).

use crate::alloc::{enter, Ctx};
use crate::ledger::{self, DropOutcome, Seam};
use serde::{Deserialize, Deserializer, Serialize, Serializer};

const MAGIC: u32 = 0x5EED_C0DE;
const TOMB: u32 = 0xDEAD_DEAD;

#[derive(Copy, Clone, PartialEq, Eq, Debug, Hash, PartialOrd, Ord)]
pub enum ElemKind {
    Tr = 0,
    Zt = 1,
    Pl = 2,
    /// tracked like Tr, but 32 bytes with 32-byte alignment (layout-sensitive paths)
    Al = 3,
    /// zero-sized AND without Drop: nothing to track, only call counts and shapes are checked
    Zp = 4,
}
impl ElemKind {
    pub fn name(self) -> &'static str {
        match self {
            ElemKind::Tr => "Tr",
            ElemKind::Zt => "Zt",
            ElemKind::Pl => "Pl",
            ElemKind::Al => "Al",
            ElemKind::Zp => "Zp",
        }
    }
    pub fn from_name(s: &str) -> Option<ElemKind> {
        Some(match s {
            "Tr" => ElemKind::Tr,
            "Zt" => ElemKind::Zt,
            "Pl" => ElemKind::Pl,
            "Al" => ElemKind::Al,
            "Zp" => ElemKind::Zp,
            _ => return None,
        })
    }
}

pub trait Elem: Sized + Clone + Default + std::fmt::Debug + Serialize + for<'de> Deserialize<'de> + 'static {
    const KIND: ElemKind;
    /// does the ledger track drops of this kind
    const TRACKED: bool;
    /// do values carry an identity that can be compared
    const HAS_ID: bool;
    /// create a fresh element (harness side; no seam tick)
    fn make() -> Self;
    /// the element is handed to caller code or read by the harness: validate and return its id
    fn observe(&self, site: u32) -> u32;
    /// validate + mark as reachable during a conservation walk
    fn walk(&self) -> u32;
    /// what `Debug` prints for the element with this id
    fn debug_of(id: u32) -> String;
    /// a plain type of the same size but alignment 1 (for maps that may reuse storage)
    type Bytes: Default + 'static;
}

// ---------------------------------------------------------------------------

#[repr(C)]
pub struct Tr {
    id: u32,
    canary: u32,
    payload: *mut u64,
}

impl Tr {
    fn fresh() -> Tr {
        let id = ledger::create();
        let _g = enter(Ctx::Payload);
        let payload = Box::into_raw(Box::new(id as u64 ^ 0xABCD_0000_0000));
        Tr {
            id,
            canary: id ^ MAGIC,
            payload,
        }
    }
    #[inline]
    fn valid(&self) -> bool {
        self.canary == self.id ^ MAGIC
    }
}

impl Drop for Tr {
    fn drop(&mut self) {
        // a tombstoned canary with a known id is an element being dropped again in place
        let valid = self.valid() || (self.canary == TOMB && ledger::known(self.id) && !ledger::is_live(self.id));
        match ledger::on_drop(self.id, valid) {
            DropOutcome::First => {
                // free the payload exactly once per identity, so that a double drop is
                // reported with a replay instead of killing the process inside free()
                unsafe {
                    let v = *self.payload;
                    if v != (self.id as u64 ^ 0xABCD_0000_0000) {
                        ledger::violate(
                            "I2-garbage-observed",
                            format!("payload of element #{} is corrupted", self.id),
                        );
                    }
                    let _g = enter(Ctx::Payload);
                    drop(Box::from_raw(self.payload));
                }
                self.canary = TOMB;
            }
            DropOutcome::Again | DropOutcome::Garbage => {}
        }
        ledger::tick(Seam::Drop);
    }
}

impl Clone for Tr {
    fn clone(&self) -> Tr {
        let _g = enter(Ctx::Work);
        let src = self.observe(900);
        ledger::tick(Seam::Clone);
        let t = Tr::fresh();
        ledger::note_clone(src, t.id);
        t
    }
}

impl Default for Tr {
    fn default() -> Tr {
        let _g = enter(Ctx::Work);
        ledger::tick(Seam::Default);
        let t = Tr::fresh();
        ledger::note_clone(u32::MAX, t.id);
        t
    }
}

impl Elem for Tr {
    const KIND: ElemKind = ElemKind::Tr;
    const TRACKED: bool = true;
    const HAS_ID: bool = true;
    fn make() -> Tr {
        Tr::fresh()
    }
    fn observe(&self, site: u32) -> u32 {
        // a tombstoned canary with a known id is an element that was dropped in place:
        // let the ledger report it as observed-after-drop rather than as garbage
        let valid = self.valid() || (self.canary == TOMB && !ledger::is_live(self.id) && ledger::known(self.id));
        if ledger::on_observe(self.id, valid, site) {
            // live by the ledger: the payload must still be there
            let v = unsafe { *self.payload };
            if v != (self.id as u64 ^ 0xABCD_0000_0000) {
                ledger::violate(
                    "I2-garbage-observed",
                    format!("payload of live element #{} is corrupted", self.id),
                );
            }
        }
        if valid {
            self.id
        } else {
            0
        }
    }
    fn walk(&self) -> u32 {
        let id = self.observe(901);
        ledger::walk_mark(id);
        id
    }
    fn debug_of(id: u32) -> String {
        format!("#{id}")
    }
    type Bytes = [u8; 16];
}
impl std::fmt::Debug for Tr {
    fn fmt(&self, f: &mut std::fmt::Formatter) -> std::fmt::Result {
        write!(f, "#{}", self.observe(903))
    }
}

impl Serialize for Tr {
    fn serialize<S: Serializer>(&self, s: S) -> Result<S::Ok, S::Error> {
        let id = self.observe(902);
        s.serialize_u32(id)
    }
}
impl<'de> Deserialize<'de> for Tr {
    fn deserialize<D: Deserializer<'de>>(d: D) -> Result<Tr, D::Error> {
        let v = u32::deserialize(d)?;
        let _g = enter(Ctx::Work);
        ledger::tick(Seam::DeElem);
        let t = Tr::fresh();
        ledger::note_clone(v, t.id);
        Ok(t)
    }
}

// ---------------------------------------------------------------------------

pub struct Zt(());

impl Zt {
    fn fresh() -> Zt {
        ledger::zt_create();
        Zt(())
    }
}
impl Drop for Zt {
    fn drop(&mut self) {
        ledger::zt_drop();
        ledger::tick(Seam::Drop);
    }
}
impl Clone for Zt {
    fn clone(&self) -> Zt {
        let _g = enter(Ctx::Work);
        ledger::tick(Seam::Clone);
        Zt::fresh()
    }
}
impl Default for Zt {
    fn default() -> Zt {
        let _g = enter(Ctx::Work);
        ledger::tick(Seam::Default);
        Zt::fresh()
    }
}
impl Elem for Zt {
    const KIND: ElemKind = ElemKind::Zt;
    const TRACKED: bool = true;
    const HAS_ID: bool = false;
    fn make() -> Zt {
        Zt::fresh()
    }
    fn observe(&self, _site: u32) -> u32 {
        0
    }
    fn walk(&self) -> u32 {
        0
    }
    fn debug_of(_id: u32) -> String {
        "#".to_string()
    }
    type Bytes = [u8; 0];
}
impl std::fmt::Debug for Zt {
    fn fmt(&self, f: &mut std::fmt::Formatter) -> std::fmt::Result {
        f.write_str("#")
    }
}
impl Serialize for Zt {
    fn serialize<S: Serializer>(&self, s: S) -> Result<S::Ok, S::Error> {
        s.serialize_u32(0)
    }
}
impl<'de> Deserialize<'de> for Zt {
    fn deserialize<D: Deserializer<'de>>(d: D) -> Result<Zt, D::Error> {
        let v = u32::deserialize(d)?;
        let _g = enter(Ctx::Work);
        ledger::tick(Seam::DeElem);
        ledger::note_clone(v, 0);
        Ok(Zt::fresh())
    }
}

// ---------------------------------------------------------------------------

/// Plain element: not `Copy`, no `Drop`. Ids come from a separate counter (high bit set).
pub struct Pl {
    id: u32,
    canary: u32,
}

thread_local! {
    static PL_NEXT: std::cell::Cell<u32> = const { std::cell::Cell::new(1) };
}
pub fn pl_reset() {
    PL_NEXT.with(|c| c.set(1));
}

impl Pl {
    fn fresh() -> Pl {
        let id = PL_NEXT.with(|c| {
            let v = c.get();
            c.set(v + 1);
            v
        }) | 0x4000_0000;
        ledger::ev(ledger::EV_CREATE, id, 2);
        Pl {
            id,
            canary: id ^ MAGIC,
        }
    }
}
impl Clone for Pl {
    fn clone(&self) -> Pl {
        let _g = enter(Ctx::Work);
        let src = self.observe(900);
        ledger::tick(Seam::Clone);
        let p = Pl::fresh();
        ledger::note_clone(src, p.id);
        p
    }
}
impl Default for Pl {
    fn default() -> Pl {
        let _g = enter(Ctx::Work);
        ledger::tick(Seam::Default);
        let p = Pl::fresh();
        ledger::note_clone(u32::MAX, p.id);
        p
    }
}
impl Elem for Pl {
    const KIND: ElemKind = ElemKind::Pl;
    const TRACKED: bool = false;
    const HAS_ID: bool = true;
    fn make() -> Pl {
        Pl::fresh()
    }
    fn observe(&self, site: u32) -> u32 {
        let next = PL_NEXT.with(|c| c.get());
        let ok = self.canary == self.id ^ MAGIC
            && self.id & 0x4000_0000 != 0
            && (self.id & 0x3FFF_FFFF) < next
            && (self.id & 0x3FFF_FFFF) != 0;
        ledger::ev(ledger::EV_OBSERVE, if ok { self.id } else { u32::MAX }, site);
        if !ok {
            ledger::violate(
                "I2-garbage-observed",
                format!(
                    "a slot that holds no element (bad canary / unknown id {:#x}) was handed out as an element (site {site})",
                    self.id
                ),
            );
            return 0;
        }
        self.id
    }
    fn walk(&self) -> u32 {
        self.observe(901)
    }
    fn debug_of(id: u32) -> String {
        format!("#{id}")
    }
    type Bytes = [u8; 8];
}
impl std::fmt::Debug for Pl {
    fn fmt(&self, f: &mut std::fmt::Formatter) -> std::fmt::Result {
        write!(f, "#{}", self.observe(903))
    }
}
impl Serialize for Pl {
    fn serialize<S: Serializer>(&self, s: S) -> Result<S::Ok, S::Error> {
        let id = self.observe(902);
        s.serialize_u32(id)
    }
}
impl<'de> Deserialize<'de> for Pl {
    fn deserialize<D: Deserializer<'de>>(d: D) -> Result<Pl, D::Error> {
        let v = u32::deserialize(d)?;
        let _g = enter(Ctx::Work);
        ledger::tick(Seam::DeElem);
        let p = Pl::fresh();
        ledger::note_clone(v, p.id);
        Ok(p)
    }
}

// ---------------------------------------------------------------------------

/// Over-aligned tracked element: a `Tr` in a 32-byte, 32-byte-aligned shell. All bookkeeping
/// (ledger, seams, canary, payload) is the inner element's.
#[repr(C, align(32))]
pub struct Al(Tr);

impl Clone for Al {
    fn clone(&self) -> Al {
        Al(self.0.clone())
    }
}
impl Default for Al {
    fn default() -> Al {
        Al(Tr::default())
    }
}
impl Elem for Al {
    const KIND: ElemKind = ElemKind::Al;
    const TRACKED: bool = true;
    const HAS_ID: bool = true;
    fn make() -> Al {
        Al(Tr::make())
    }
    fn observe(&self, site: u32) -> u32 {
        if (self as *const Al as usize) % 32 != 0 {
            ledger::violate("I2-garbage-observed", format!("an over-aligned element was handed out at a misaligned address (site {site})"));
        }
        self.0.observe(site)
    }
    fn walk(&self) -> u32 {
        self.0.walk()
    }
    fn debug_of(id: u32) -> String {
        format!("#{id}")
    }
    type Bytes = [u8; 32];
}
impl std::fmt::Debug for Al {
    fn fmt(&self, f: &mut std::fmt::Formatter) -> std::fmt::Result {
        self.0.fmt(f)
    }
}
impl Serialize for Al {
    fn serialize<S: Serializer>(&self, s: S) -> Result<S::Ok, S::Error> {
        self.0.serialize(s)
    }
}
impl<'de> Deserialize<'de> for Al {
    fn deserialize<D: Deserializer<'de>>(d: D) -> Result<Al, D::Error> {
        Tr::deserialize(d).map(Al)
    }
}

// ---------------------------------------------------------------------------

/// Zero-sized and plain (no `Drop`): selects fast paths keyed on `size_of == 0 && !needs_drop`.
pub struct Zp(());
impl Clone for Zp {
    fn clone(&self) -> Zp {
        let _g = enter(Ctx::Work);
        ledger::tick(Seam::Clone);
        ledger::note_clone(0, 0);
        Zp(())
    }
}
impl Default for Zp {
    fn default() -> Zp {
        let _g = enter(Ctx::Work);
        ledger::tick(Seam::Default);
        Zp(())
    }
}
impl Elem for Zp {
    const KIND: ElemKind = ElemKind::Zp;
    const TRACKED: bool = false;
    const HAS_ID: bool = false;
    fn make() -> Zp {
        ledger::ev(ledger::EV_CREATE, 0, 3);
        Zp(())
    }
    fn observe(&self, _site: u32) -> u32 {
        0
    }
    fn walk(&self) -> u32 {
        0
    }
    fn debug_of(_id: u32) -> String {
        "#".to_string()
    }
    type Bytes = [u8; 0];
}
impl std::fmt::Debug for Zp {
    fn fmt(&self, f: &mut std::fmt::Formatter) -> std::fmt::Result {
        f.write_str("#")
    }
}
impl Serialize for Zp {
    fn serialize<S: Serializer>(&self, s: S) -> Result<S::Ok, S::Error> {
        s.serialize_u32(0)
    }
}
impl<'de> Deserialize<'de> for Zp {
    fn deserialize<D: Deserializer<'de>>(d: D) -> Result<Zp, D::Error> {
        let v = u32::deserialize(d)?;
        let _g = enter(Ctx::Work);
        ledger::tick(Seam::DeElem);
        ledger::note_clone(v, 0);
        Ok(Zp(()))
    }
}
