//! generated split of the executors: one module per group so that each group gets its own codegen unit
#![allow(unused_imports)]
//! Executors: serde seams (C17). A recording `Serializer`, a scripted `Deserializer` /
//! `SeqAccess`, and torn / ill-typed input through the real bincode and serde_json.

use crate::alloc::{enter, Ctx};
use crate::elem::Elem;
use crate::gen::*;
use crate::ledger;
use crate::ops::*;
use crate::world::*;
use crate::exec::pick_len;
use generic_array::typenum::Unsigned;
use generic_array::sequence::GenericSequence;
use generic_array::GenericArray;
use serde::de::{self, DeserializeSeed, Deserializer, SeqAccess, Visitor};
use serde::ser::{self, Serialize, SerializeTuple, Serializer};
use std::fmt;

fn infra<R>(f: impl FnOnce() -> R) -> R {
    let _g = enter(Ctx::Infra);
    f()
}

// ---------------------------------------------------------------------------
// error type shared by the scripted serializer / deserializer

#[derive(Debug)]
pub struct ScriptErr(pub String);
impl fmt::Display for ScriptErr {
    fn fmt(&self, f: &mut fmt::Formatter) -> fmt::Result {
        f.write_str(&self.0)
    }
}
impl std::error::Error for ScriptErr {}
impl ser::Error for ScriptErr {
    fn custom<T: fmt::Display>(msg: T) -> Self {
        let _g = enter(Ctx::Infra);
        ScriptErr(msg.to_string())
    }
}
impl de::Error for ScriptErr {
    fn custom<T: fmt::Display>(msg: T) -> Self {
        let _g = enter(Ctx::Infra);
        ScriptErr(msg.to_string())
    }
}

// ---------------------------------------------------------------------------
// recording serializer

#[derive(Debug, PartialEq, Eq, Clone)]
pub enum SerEv {
    Tuple(usize),
    Elem(u32),
    End,
    Other(&'static str),
}

pub struct RecSer<'a> {
    log: &'a mut Vec<SerEv>,
    human: bool,
}
pub struct RecTuple<'a> {
    log: &'a mut Vec<SerEv>,
    human: bool,
}
/// serializer handed to each element: only `serialize_u32` is expected
pub struct ElemSer<'a> {
    log: &'a mut Vec<SerEv>,
    human: bool,
}

macro_rules! other_ser {
    ($($name:ident($($arg:ident: $t:ty),*);)*) => {
        $(fn $name(self, $($arg: $t),*) -> Result<Self::Ok, Self::Error> {
            $(let _ = $arg;)*
            let _g = enter(Ctx::Infra);
            self.log.push(SerEv::Other(stringify!($name)));
            Ok(())
        })*
    };
}

macro_rules! impl_rec_serializer {
    ($ty:ident, $u32:expr, $tuple:expr) => {
        impl<'a> Serializer for $ty<'a> {
            type Ok = ();
            type Error = ScriptErr;
            type SerializeSeq = RecTuple<'a>;
            type SerializeTuple = RecTuple<'a>;
            type SerializeTupleStruct = ser::Impossible<(), ScriptErr>;
            type SerializeTupleVariant = ser::Impossible<(), ScriptErr>;
            type SerializeMap = ser::Impossible<(), ScriptErr>;
            type SerializeStruct = ser::Impossible<(), ScriptErr>;
            type SerializeStructVariant = ser::Impossible<(), ScriptErr>;

            other_ser! {
                serialize_bool(v: bool); serialize_i8(v: i8); serialize_i16(v: i16); serialize_i32(v: i32);
                serialize_i64(v: i64); serialize_u8(v: u8); serialize_u16(v: u16); serialize_u64(v: u64);
                serialize_f32(v: f32); serialize_f64(v: f64); serialize_char(v: char); serialize_str(v: &str);
                serialize_bytes(v: &[u8]); serialize_none(); serialize_unit(); serialize_unit_struct(n: &'static str);
                serialize_unit_variant(n: &'static str, i: u32, v: &'static str);
            }
            fn serialize_u32(self, v: u32) -> Result<(), ScriptErr> {
                let _g = enter(Ctx::Infra);
                let f: fn(u32) -> SerEv = $u32;
                self.log.push(f(v));
                Ok(())
            }
            fn serialize_some<T: ?Sized + Serialize>(self, _v: &T) -> Result<(), ScriptErr> {
                let _g = enter(Ctx::Infra);
                self.log.push(SerEv::Other("serialize_some"));
                Ok(())
            }
            fn serialize_newtype_struct<T: ?Sized + Serialize>(self, _n: &'static str, _v: &T) -> Result<(), ScriptErr> {
                let _g = enter(Ctx::Infra);
                self.log.push(SerEv::Other("serialize_newtype_struct"));
                Ok(())
            }
            fn serialize_newtype_variant<T: ?Sized + Serialize>(self, _n: &'static str, _i: u32, _v: &'static str, _x: &T) -> Result<(), ScriptErr> {
                let _g = enter(Ctx::Infra);
                self.log.push(SerEv::Other("serialize_newtype_variant"));
                Ok(())
            }
            fn serialize_seq(self, _len: Option<usize>) -> Result<RecTuple<'a>, ScriptErr> {
                let _g = enter(Ctx::Infra);
                self.log.push(SerEv::Other("serialize_seq"));
                Ok(RecTuple { log: self.log, human: self.human })
            }
            fn serialize_tuple(self, len: usize) -> Result<RecTuple<'a>, ScriptErr> {
                let _g = enter(Ctx::Infra);
                let f: fn(usize) -> SerEv = $tuple;
                self.log.push(f(len));
                Ok(RecTuple { log: self.log, human: self.human })
            }
            fn serialize_tuple_struct(self, _n: &'static str, _l: usize) -> Result<Self::SerializeTupleStruct, ScriptErr> {
                Err(ScriptErr("serialize_tuple_struct".into()))
            }
            fn serialize_tuple_variant(self, _n: &'static str, _i: u32, _v: &'static str, _l: usize) -> Result<Self::SerializeTupleVariant, ScriptErr> {
                Err(ScriptErr("serialize_tuple_variant".into()))
            }
            fn serialize_map(self, _l: Option<usize>) -> Result<Self::SerializeMap, ScriptErr> {
                Err(ScriptErr("serialize_map".into()))
            }
            fn serialize_struct(self, _n: &'static str, _l: usize) -> Result<Self::SerializeStruct, ScriptErr> {
                Err(ScriptErr("serialize_struct".into()))
            }
            fn serialize_struct_variant(self, _n: &'static str, _i: u32, _v: &'static str, _l: usize) -> Result<Self::SerializeStructVariant, ScriptErr> {
                Err(ScriptErr("serialize_struct_variant".into()))
            }
            fn is_human_readable(&self) -> bool {
                self.human
            }
        }
    };
}

impl_rec_serializer!(RecSer, |_v| SerEv::Other("serialize_u32"), |l| SerEv::Tuple(l));
impl_rec_serializer!(ElemSer, |v| SerEv::Elem(v), |_l| SerEv::Other("nested serialize_tuple"));

impl<'a> SerializeTuple for RecTuple<'a> {
    type Ok = ();
    type Error = ScriptErr;
    fn serialize_element<T: ?Sized + Serialize>(&mut self, value: &T) -> Result<(), ScriptErr> {
        value.serialize(ElemSer { log: self.log, human: self.human })
    }
    fn end(self) -> Result<(), ScriptErr> {
        let _g = enter(Ctx::Infra);
        self.log.push(SerEv::End);
        Ok(())
    }
}
impl<'a> ser::SerializeSeq for RecTuple<'a> {
    type Ok = ();
    type Error = ScriptErr;
    fn serialize_element<T: ?Sized + Serialize>(&mut self, value: &T) -> Result<(), ScriptErr> {
        value.serialize(ElemSer { log: self.log, human: self.human })
    }
    fn end(self) -> Result<(), ScriptErr> {
        let _g = enter(Ctx::Infra);
        self.log.push(SerEv::End);
        Ok(())
    }
}

// ---------------------------------------------------------------------------
// scripted deserializer

pub struct DeStats {
    pub tuple_len: Option<usize>,
    pub other_method: Option<&'static str>,
    pub delivered: usize,
    pub polls: usize,
    pub hint_calls: usize,
}

pub struct ScriptDe<'a> {
    st: &'a mut DeStats,
    c: usize,
    n: usize,
    hint0: u32,
    running: u32,
    err_at: Option<usize>,
    /// what `is_human_readable()` answers (false = a compact binary format)
    human: bool,
}

pub const N_HINT0: u32 = 5;
pub const HINT0_NAMES: [&str; 5] = ["none", "exact(c)", "claims-N", "too-small", "too-large"];
pub const N_RUNNING: u32 = 4;
pub const RUNNING_NAMES: [&str; 4] = ["truthful", "none", "claims-one-more", "always-zero"];

pub fn hint0_value(policy: u32, c: usize, n: usize) -> Option<usize> {
    match policy % N_HINT0 {
        0 => None,
        1 => Some(c),
        2 => Some(n),
        3 => Some(c.saturating_sub(1)),
        _ => Some(c + 1),
    }
}

struct ScriptSeq<'a, 'b> {
    d: &'b mut ScriptDe<'a>,
}

impl<'de, 'a, 'b> SeqAccess<'de> for ScriptSeq<'a, 'b> {
    type Error = ScriptErr;
    fn next_element_seed<T: DeserializeSeed<'de>>(&mut self, seed: T) -> Result<Option<T::Value>, ScriptErr> {
        let d = &mut *self.d;
        d.st.polls += 1;
        if d.st.delivered >= d.c {
            return Ok(None);
        }
        if d.err_at == Some(d.st.delivered) {
            let _g = enter(Ctx::Infra);
            return Err(ScriptErr(format!("element {} fails to parse", d.st.delivered)));
        }
        let k = d.st.delivered as u32;
        let v = seed.deserialize(U32De(1000 + k))?;
        d.st.delivered += 1;
        Ok(Some(v))
    }
    fn size_hint(&self) -> Option<usize> {
        let d = &*self.d;
        // note: hint_calls is informational only
        if d.st.delivered == 0 && d.st.polls == 0 {
            hint0_value(d.hint0, d.c, d.n)
        } else {
            let left = d.c - d.st.delivered.min(d.c);
            match d.running % N_RUNNING {
                0 => Some(left),
                1 => None,
                2 => Some(left + 1),
                _ => Some(0),
            }
        }
    }
}

macro_rules! other_de {
    ($($name:ident)*) => {
        $(fn $name<V: Visitor<'de>>(self, _v: V) -> Result<V::Value, ScriptErr> {
            self.st.other_method = Some(stringify!($name));
            Err(ScriptErr(concat!("unexpected ", stringify!($name)).into()))
        })*
    };
}

impl<'de, 'a> Deserializer<'de> for ScriptDe<'a> {
    type Error = ScriptErr;
    other_de! { deserialize_any deserialize_bool deserialize_i8 deserialize_i16 deserialize_i32 deserialize_i64
        deserialize_u8 deserialize_u16 deserialize_u32 deserialize_u64 deserialize_f32 deserialize_f64 deserialize_char
        deserialize_str deserialize_string deserialize_bytes deserialize_byte_buf deserialize_option deserialize_unit
        deserialize_seq deserialize_map deserialize_identifier deserialize_ignored_any }
    fn deserialize_unit_struct<V: Visitor<'de>>(self, _n: &'static str, _v: V) -> Result<V::Value, ScriptErr> {
        self.st.other_method = Some("deserialize_unit_struct");
        Err(ScriptErr("unexpected".into()))
    }
    fn deserialize_newtype_struct<V: Visitor<'de>>(self, _n: &'static str, _v: V) -> Result<V::Value, ScriptErr> {
        self.st.other_method = Some("deserialize_newtype_struct");
        Err(ScriptErr("unexpected".into()))
    }
    fn deserialize_tuple_struct<V: Visitor<'de>>(self, _n: &'static str, _l: usize, _v: V) -> Result<V::Value, ScriptErr> {
        self.st.other_method = Some("deserialize_tuple_struct");
        Err(ScriptErr("unexpected".into()))
    }
    fn deserialize_struct<V: Visitor<'de>>(self, _n: &'static str, _f: &'static [&'static str], _v: V) -> Result<V::Value, ScriptErr> {
        self.st.other_method = Some("deserialize_struct");
        Err(ScriptErr("unexpected".into()))
    }
    fn deserialize_enum<V: Visitor<'de>>(self, _n: &'static str, _f: &'static [&'static str], _v: V) -> Result<V::Value, ScriptErr> {
        self.st.other_method = Some("deserialize_enum");
        Err(ScriptErr("unexpected".into()))
    }
    fn deserialize_tuple<V: Visitor<'de>>(mut self, len: usize, visitor: V) -> Result<V::Value, ScriptErr> {
        self.st.tuple_len = Some(len);
        visitor.visit_seq(ScriptSeq { d: &mut self })
    }
    fn is_human_readable(&self) -> bool {
        self.human
    }
}

/// deserializer for one element: a u32
struct U32De(u32);
macro_rules! u32_de {
    ($($name:ident)*) => {
        $(fn $name<V: Visitor<'de>>(self, v: V) -> Result<V::Value, ScriptErr> { v.visit_u32(self.0) })*
    };
}
impl<'de> Deserializer<'de> for U32De {
    type Error = ScriptErr;
    u32_de! { deserialize_any deserialize_bool deserialize_i8 deserialize_i16 deserialize_i32 deserialize_i64
        deserialize_u8 deserialize_u16 deserialize_u32 deserialize_u64 deserialize_f32 deserialize_f64 deserialize_char
        deserialize_str deserialize_string deserialize_bytes deserialize_byte_buf deserialize_option deserialize_unit
        deserialize_seq deserialize_map deserialize_identifier deserialize_ignored_any }
    fn deserialize_unit_struct<V: Visitor<'de>>(self, _n: &'static str, v: V) -> Result<V::Value, ScriptErr> {
        v.visit_u32(self.0)
    }
    fn deserialize_newtype_struct<V: Visitor<'de>>(self, _n: &'static str, v: V) -> Result<V::Value, ScriptErr> {
        v.visit_u32(self.0)
    }
    fn deserialize_tuple<V: Visitor<'de>>(self, _l: usize, v: V) -> Result<V::Value, ScriptErr> {
        v.visit_u32(self.0)
    }
    fn deserialize_tuple_struct<V: Visitor<'de>>(self, _n: &'static str, _l: usize, v: V) -> Result<V::Value, ScriptErr> {
        v.visit_u32(self.0)
    }
    fn deserialize_struct<V: Visitor<'de>>(self, _n: &'static str, _f: &'static [&'static str], v: V) -> Result<V::Value, ScriptErr> {
        v.visit_u32(self.0)
    }
    fn deserialize_enum<V: Visitor<'de>>(self, _n: &'static str, _f: &'static [&'static str], v: V) -> Result<V::Value, ScriptErr> {
        v.visit_u32(self.0)
    }
}

// ---------------------------------------------------------------------------
// reference model for real formats: a fixed-size tuple of u32 read element by element,
// exactly what serde does for native arrays / tuples (works for every N)

pub struct RefTuple(pub Vec<u32>);
struct RefSeed(usize);
impl<'de> DeserializeSeed<'de> for RefSeed {
    type Value = RefTuple;
    fn deserialize<D: Deserializer<'de>>(self, d: D) -> Result<RefTuple, D::Error> {
        struct V(usize);
        impl<'de> Visitor<'de> for V {
            type Value = RefTuple;
            fn expecting(&self, f: &mut fmt::Formatter) -> fmt::Result {
                write!(f, "a tuple of {} u32", self.0)
            }
            fn visit_seq<A: SeqAccess<'de>>(self, mut seq: A) -> Result<RefTuple, A::Error> {
                let mut out = Vec::new();
                for i in 0..self.0 {
                    match seq.next_element::<u32>()? {
                        Some(v) => out.push(v),
                        None => return Err(de::Error::invalid_length(i, &self)),
                    }
                }
                Ok(RefTuple(out))
            }
        }
        d.deserialize_tuple(self.0, V(self.0))
    }
}

// ---------------------------------------------------------------------------

ops_group!(GSerde);

impl<'a, E: Elem> GSerde<'a, E> {
    pub fn op_ser_record(&mut self, cx: &mut Cx, a: [u32; N_ARGS]) {
        let Some(i) = pick_len(self.arrs.len(), a[0]) else { cx.ops_noop += 1; return };
        let arr = &self.arrs[i];
        let n = arr.len();
        let ids = with_arr!(arr; x, N => { let _ = N::USIZE; ids_of(x.as_slice(), 970) });
        let mut log: Vec<SerEv> = infra(Vec::new);
        let r = with_arr!(arr; x, N => { let _ = N::USIZE; lib(|| x.serialize(RecSer { log: &mut log, human: a[1] % 2 == 0 })) });
        cx.cov(&[OpKind::SerRecord as u64, n as u64]);
        match r {
            Ok(res) => {
                if cx.checks.c17 {
                    let want: Vec<SerEv> = infra(|| {
                        let mut w = vec![SerEv::Tuple(n)];
                        w.extend(ids.iter().map(|&id| SerEv::Elem(id)));
                        w.push(SerEv::End);
                        w
                    });
                    if res.is_err() || log != want {
                        fail("C17-serialize-shape", format!("serialising a length-{n} array produced {log:?} ({res:?}); expected a tuple of exactly {n} elements in index order: {want:?}"));
                    }
                }
            }
            Err(p) => on_panic(cx, "serialize", p),
        }
    }

    pub fn op_ser_real(&mut self, cx: &mut Cx, a: [u32; N_ARGS]) {
        let Some(i) = pick_len(self.arrs.len(), a[0]) else { cx.ops_noop += 1; return };
        let format = a[1] % 3;
        let li = self.arrs[i].len_idx();
        let n = LENS[li];
        let ids = with_arr!(&self.arrs[i]; x, N => { let _ = N::USIZE; ids_of(x.as_slice(), 971) });
        cx.cov(&[OpKind::SerReal as u64, n as u64, format as u64]);
        // serialise through the real format
        let arr = &self.arrs[i];
        enum Enc {
            Bytes(Vec<u8>),
            Text(String),
            Value(serde_json::Value),
        }
        let r = with_arr!(arr; x, N => { let _ = N::USIZE; lib(|| {
            let _g = enter(Ctx::Infra);
            match format {
                0 => bincode::serialize(x).map(Enc::Bytes).map_err(|e| e.to_string()),
                1 => serde_json::to_string(x).map(Enc::Text).map_err(|e| e.to_string()),
                _ => serde_json::to_value(x).map(Enc::Value).map_err(|e| e.to_string()),
            }
        }) });
        let enc = match r {
            Ok(Ok(e)) => e,
            Ok(Err(e)) => {
                if cx.checks.c17 {
                    fail("C17-serialize-shape", format!("serialising a length-{n} array failed: {e}"));
                }
                return;
            }
            Err(p) => return on_panic(cx, "serialize (real format)", p),
        };
        if cx.checks.c17 {
            let _g = enter(Ctx::Infra);
            // the tuple encoding of the same elements
            let ok = match &enc {
                Enc::Bytes(b) => {
                    let mut w = Vec::new();
                    for id in &ids {
                        w.extend_from_slice(&id.to_le_bytes());
                    }
                    *b == w
                }
                Enc::Text(s) => {
                    let parts: Vec<String> = ids.iter().map(|i| i.to_string()).collect();
                    *s == format!("[{}]", parts.join(","))
                }
                Enc::Value(v) => *v == serde_json::Value::Array(ids.iter().map(|&i| serde_json::Value::from(i)).collect()),
            };
            if !ok {
                fail("C17-serialize-shape", format!("format {format}: the encoding of a length-{n} array {ids:?} is not the encoding of the {n}-tuple of its elements"));
            }
        }
        // and back
        ledger::with(|s| s.clones.clear());
        let r = with_len!(li; N => lib(|| {
            let r: Result<GenericArray<E, N>, String> = match &enc {
                Enc::Bytes(b) => bincode::deserialize(b).map_err(|e| { let _g = enter(Ctx::Infra); e.to_string() }),
                Enc::Text(s) => serde_json::from_str(s).map_err(|e| { let _g = enter(Ctx::Infra); e.to_string() }),
                Enc::Value(v) => { let v = { let _g = enter(Ctx::Infra); v.clone() }; serde_json::from_value(v).map_err(|e| { let _g = enter(Ctx::Infra); e.to_string() }) }
            };
            r.map(Arr::from)
        }));
        infra(|| drop(enc));
        match r {
            Ok(Ok(arr)) => {
                let srcs: Vec<u32> = ledger::with(|s| s.clones.iter().map(|c| c.0).collect());
                if cx.checks.c17 && srcs != ids {
                    fail("C17-roundtrip", format!("format {format}: round trip of {ids:?} read back values {srcs:?}"));
                }
                self.put_arr(cx, arr);
            }
            Ok(Err(e)) => {
                if cx.checks.c17 {
                    fail("C17-roundtrip", format!("format {format}: deserialising the output of serialising a length-{n} array failed: {e}"));
                }
            }
            Err(p) => on_panic(cx, "deserialize (round trip)", p),
        }
    }

    pub fn op_de_scripted(&mut self, cx: &mut Cx, a: [u32; N_ARGS]) {
        let li = lens_idx(a[0]);
        let n = LENS[li];
        let c = a[1] as usize % (n + 3);
        let hint0 = a[2] % N_HINT0;
        // the in-place entry point (`Deserialize::deserialize_in_place`) on an existing array
        let in_place = (a[2] / N_HINT0) % 2 == 1;
        let running = a[3] % N_RUNNING;
        // the source may present itself as a compact binary format
        let human = (a[3] / N_RUNNING) % 2 == 0;
        // a[4]: 0 = no element error, k+1 = element k fails (k in 0..=c)
        let err_at = if a[4] == 0 { None } else { Some((a[4] as usize - 1) % (c + 1)) };
        let err_at = err_at.filter(|&k| k < c);
        let mut st = DeStats { tuple_len: None, other_method: None, delivered: 0, polls: 0, hint_calls: 0 };
        let h0 = hint0_value(hint0, c, n);
        if in_place {
            cx.probe("deserialize_in_place entry point");
        }
        let mut survivor: Option<Arr<E>> = None;
        let r = with_len!(li; N => lib(|| {
            let de = ScriptDe { st: &mut st, c, n, hint0, running, err_at, human };
            if in_place {
                let mut place = GenericArray::<E, N>::generate(|_| { let _g = enter(Ctx::Work); E::make() });
                let res = <GenericArray<E, N> as serde::Deserialize>::deserialize_in_place(de, &mut place);
                match res {
                    Ok(()) => Ok(Arr::from(place)),
                    Err(e) => {
                        // the place stays a valid array whatever happened; the caller keeps it
                        survivor = Some(Arr::from(place));
                        Err(e)
                    }
                }
            } else {
                <GenericArray<E, N> as serde::Deserialize>::deserialize(de).map(Arr::from)
            }
        }));
        if let Some(x) = survivor.take() {
            self.put_arr(cx, x);
        }
        let err_class = match err_at { None => 0, Some(k) if k < n => 1 + (k == 0) as u64 + 2 * (k + 1 == n.min(c)) as u64, Some(_) => 5 };
        cx.cov(&[OpKind::DeScripted as u64, n as u64, (c as i64 - n as i64 + 4) as u64, hint0 as u64, running as u64, err_class, match h0 { None => 0, Some(h) if h == n => 1, _ => 2 }, in_place as u64, human as u64]);
        if let Some(k) = err_at {
            if k < n {
                cx.probe("scripted deserializer: element error among the first N");
            }
        }
        let hint_ok = matches!(h0, None) || h0 == Some(n);
        let err_in_first_n = err_at.map_or(false, |k| k < n);
        // a source that delivers exactly N but lies about what is left while reading (claims one more,
        // or "nothing left" too early) is outside what the statement promises: either outcome
        let running_truthful = matches!(running % N_RUNNING, 0 | 1);
        let expect_ok = hint_ok && c == n && !err_in_first_n;
        let either_ok = hint_ok && c == n && !err_in_first_n && !running_truthful;
        // carve-out from the property text: surplus elements behind a source that reports
        // "nothing left" are by design not probed
        // (what the source reports once N elements have been delivered: for N = 0 that is
        // still its up-front hint)
        let hint_after_n = if n == 0 {
            h0
        } else {
            match running % N_RUNNING {
                0 => Some(c.saturating_sub(n)),
                1 => None,
                2 => Some(c.saturating_sub(n) + 1),
                _ => Some(0),
            }
        };
        let carve_out = hint_ok && c > n && !err_in_first_n && hint_after_n == Some(0);
        match r {
            Ok(res) => {
                if cx.checks.c17 {
                    if st.tuple_len != Some(n) || st.other_method.is_some() {
                        fail("C17-deserialize-shape", format!("deserialising length {n} asked the format for {:?} / {:?} instead of a tuple of {n}", st.tuple_len, st.other_method));
                    }
                    match (&res, expect_ok) {
                        (Ok(_), false) if !carve_out => fail("C17-wrong-length-accepted", format!("deserialising length {n} returned Ok for input offering {c} elements, up-front hint {h0:?}, running hint {}, element error at {err_at:?}", RUNNING_NAMES[running as usize])),
                        (Err(e), true) if !either_ok => fail("C17-right-length-rejected", format!("deserialising length {n} rejected well-formed input of exactly {n} elements (up-front hint {h0:?}, running hint {}): {}", RUNNING_NAMES[running as usize], e.0)),
                        _ => {}
                    }
                    if carve_out {
                        cx.probe("serde carve-out case (surplus behind size_hint 0)");
                    }
                }
                match res {
                    Ok(arr) => self.put_arr(cx, arr),
                    Err(e) => infra(|| drop(e)),
                }
            }
            Err(p) => on_panic(cx, "deserialize (scripted)", p),
        }
    }

    pub fn op_de_real(&mut self, cx: &mut Cx, a: [u32; N_ARGS]) {
        let li = lens_idx(a[0]);
        let n = LENS[li];
        let offered = (n + (a[1] as usize % 3)).saturating_sub(1); // N-1, N, N+1
        let format = a[2] % 3;
        let vals: Vec<u32> = infra(|| (0..offered as u32).map(|i| 7000 + i).collect());
        // build input
        enum Inp {
            Bytes(Vec<u8>),
            Text(String),
            Value(serde_json::Value),
        }
        let (inp, torn) = infra(|| match format {
            0 => {
                let mut b = Vec::new();
                for v in &vals {
                    b.extend_from_slice(&v.to_le_bytes());
                }
                let torn = a[3] != 0 && !b.is_empty();
                if torn {
                    let cut = (a[3] as usize - 1) % b.len();
                    b.truncate(cut);
                }
                (Inp::Bytes(b), torn)
            }
            1 => {
                let mut parts: Vec<String> = vals.iter().map(|v| v.to_string()).collect();
                if a[4] != 0 && !parts.is_empty() {
                    let j = (a[4] as usize - 1) % parts.len();
                    parts[j] = "\"x\"".to_string();
                }
                let mut s = format!("[{}]", parts.join(","));
                let torn = a[3] != 0;
                if torn {
                    let cut = (a[3] as usize - 1) % s.len();
                    s.truncate(cut);
                }
                (Inp::Text(s), torn)
            }
            _ => {
                let mut items: Vec<serde_json::Value> = vals.iter().map(|&v| serde_json::Value::from(v)).collect();
                if a[4] != 0 && !items.is_empty() {
                    let j = (a[4] as usize - 1) % items.len();
                    items[j] = serde_json::Value::from("x");
                }
                (Inp::Value(serde_json::Value::Array(items)), false)
            }
        });
        if torn {
            cx.probe("real format: torn (truncated) input");
        }
        cx.cov(&[OpKind::DeReal as u64, n as u64, offered as u64 + 1 - n as u64, format as u64, torn as u64, (a[4] != 0) as u64]);
        // reference: a fixed-size tuple read element by element
        let reference: Result<Vec<u32>, String> = infra(|| match &inp {
            Inp::Bytes(b) => {
                use bincode::Options;
                let mut d = bincode::Deserializer::from_slice(b, bincode::DefaultOptions::new().with_fixint_encoding().allow_trailing_bytes());
                RefSeed(n).deserialize(&mut d).map(|t| t.0).map_err(|e| e.to_string())
            }
            Inp::Text(s) => {
                let mut d = serde_json::Deserializer::from_str(s);
                RefSeed(n).deserialize(&mut d).map_err(|e| e.to_string()).and_then(|t| d.end().map(|_| t.0).map_err(|e| e.to_string()))
            }
            Inp::Value(v) => RefSeed(n).deserialize(v.clone()).map(|t| t.0).map_err(|e| e.to_string()),
        });
        ledger::with(|s| s.clones.clear());
        let r = with_len!(li; N => lib(|| {
            let r: Result<GenericArray<E, N>, String> = match &inp {
                Inp::Bytes(b) => bincode::deserialize(b).map_err(|e| { let _g = enter(Ctx::Infra); e.to_string() }),
                Inp::Text(s) => serde_json::from_str(s).map_err(|e| { let _g = enter(Ctx::Infra); e.to_string() }),
                Inp::Value(v) => { let v = { let _g = enter(Ctx::Infra); v.clone() }; serde_json::from_value(v).map_err(|e| { let _g = enter(Ctx::Infra); e.to_string() }) }
            };
            r.map(Arr::from)
        }));
        infra(|| drop(inp));
        match r {
            Ok(res) => {
                if cx.checks.c17 {
                    match (&res, &reference) {
                        (Ok(_), Err(e)) => fail("C17-wrong-length-accepted", format!("format {format}: input offering {offered} elements (torn: {torn}) deserialised as length {n}, a {n}-tuple rejects it: {e}")),
                        (Err(e), Ok(_)) => fail("C17-right-length-rejected", format!("format {format}: input offering {offered} elements deserialises as a {n}-tuple but not as a length-{n} array: {e}")),
                        (Ok(_), Ok(want)) => {
                            let srcs: Vec<u32> = ledger::with(|s| s.clones.iter().map(|c| c.0).collect());
                            if &srcs != want {
                                fail("C17-roundtrip", format!("format {format}: array read values {srcs:?}, the tuple reads {want:?}"));
                            }
                        }
                        _ => {}
                    }
                }
                match res {
                    Ok(arr) => self.put_arr(cx, arr),
                    Err(e) => infra(|| drop(e)),
                }
            }
            Err(p) => on_panic(cx, "deserialize (real format)", p),
        }
    }

}
