//! generated split of the executors: one module per group so that each group gets its own codegen unit
#![allow(unused_imports)]
use crate::alloc::{self, enter, Ctx};
use crate::elem::Elem;
use crate::gen::*;
use crate::ledger::{self, Seam};
use crate::ops::*;
use crate::world::*;
use generic_array::functional::FunctionalSequence;
use generic_array::sequence::*;
use generic_array::typenum::Unsigned;
use generic_array::GenericArray;
#[allow(unused_imports)]
use std::collections::VecDeque;

#[allow(dead_code)]
fn infra<R>(f: impl FnOnce() -> R) -> R {
    let _g = enter(Ctx::Infra);
    f()
}
use crate::exec::{is_prefix, pick_len};

ops_group!(GIter2);

/// which element of `originals` is `id` a clone of (directly or through intermediate clones)
fn clone_origin(clones: &[(u32, u32)], id: u32, originals: &[u32]) -> u32 {
    let mut cur = id;
    for _ in 0..8 {
        match clones.iter().rev().find(|c| c.1 == cur) {
            Some(c) => {
                cur = c.0;
                if originals.contains(&cur) {
                    return cur;
                }
            }
            None => break,
        }
    }
    0
}

impl<'a, E: Elem> GIter2<'a, E> {
    pub fn op_it_clone(&mut self, cx: &mut Cx, a: [u32; N_ARGS]) {
        let Some(i) = pick_len(self.its.len(), a[0]) else { return self.noop(cx) };
        self.it_cov(cx, OpKind::ItClone, i, 0);
        let io = &self.its[i];
        ledger::with(|s| s.clones.clear());
        let r = with_it!(&io.it; it, N => { let _ = N::USIZE; lib(|| It::from(it.clone())) });
        let clones = ledger::with(|s| s.clones.clone());
        let want: Vec<u32> = infra(|| io.model.iter().copied().collect());
        match r {
            Ok(it2) => {
                // what the clone yields must be clones of the original's remaining elements, in queue
                // order. (In which order, and how often, T::clone was invoked to get there is not
                // pinned down by the statement and is not asserted.)
                let got = with_it!(&it2; it, N => { let _ = N::USIZE; ids_of(it.as_slice(), 949) });
                if cx.checks.c06 {
                    if E::HAS_ID {
                        let origin: Vec<u32> = infra(|| got.iter().map(|g| clone_origin(&clones, *g, &want)).collect());
                        if origin != want {
                            fail("C06-clone", format!("clone of an iterator with remaining {want:?} yields clones of {origin:?}"));
                        }
                    } else if got.len() != want.len() {
                        fail("C06-clone", format!("clone of an iterator with {} remaining yields {} elements", want.len(), got.len()));
                    }
                }
                let model: VecDeque<u32> = infra(|| got.into_iter().collect());
                self.put_it(cx, ItObj { it: it2, model, front: 0, deferred: infra(Vec::new), deferred_anon: 0 });
            }
            Err(p) => on_panic(cx, "iterator clone", p),
        }
    }

    pub fn op_it_fold(&mut self, cx: &mut Cx, a: [u32; N_ARGS], back: bool) {
        let Some(i) = pick_len(self.its.len(), a[0]) else { return self.noop(cx) };
        self.it_cov(cx, if back { OpKind::ItRfold } else { OpKind::ItFold }, i, 0);
        let io = self.its.remove(i);
        let mut want: Vec<u32> = infra(|| io.model.iter().copied().collect());
        if back {
            want.reverse();
        }
        let mut cb = Cb::<E>::new(a[1]);
        let init = Acc { token: 7, kept: infra(Vec::new) };
        let r = with_it!(io.it; it, N => { let _ = N::USIZE; lib(|| {
            if back { it.rfold(init, |acc, e| fold_cb(&mut cb, acc, e)) } else { it.fold(init, |acc, e| fold_cb(&mut cb, acc, e)) }
        }) });
        let seen: Vec<u32> = infra(|| cb.args.iter().map(|x| x.0).collect());
        match r {
            Ok(acc) => {
                if cx.checks.c06 {
                    let ok = if E::HAS_ID { seen == want } else { seen.len() == want.len() };
                    if !ok {
                        fail("C06-fold-order", format!("{} visited {seen:?}, a queue yields {want:?}", if back { "rfold" } else { "fold" }));
                    }
                }
                if cx.checks.c08 {
                    let exp = fold_expected(7, &seen);
                    if cb.args != exp {
                        fail("C08-fold-acc", format!("iterator fold did not thread the accumulator: calls {:?}, expected {:?}", cb.args, exp));
                    }
                }
                let Acc { kept, .. } = acc;
                self.put_loose_all(cx, kept);
            }
            Err(p) => {
                if cx.checks.c06 && E::HAS_ID && !is_prefix(&seen, &want) {
                    fail("C06-fold-order", format!("fold visited {seen:?} before the panic, a queue yields {want:?}"));
                }
                on_panic(cx, "iterator fold/rfold", p);
            }
        }
        let stash = core::mem::take(&mut cb.stash);
        self.put_loose_all(cx, stash);
    }

    pub fn op_it_count(&mut self, cx: &mut Cx, a: [u32; N_ARGS]) {
        let Some(i) = pick_len(self.its.len(), a[0]) else { return self.noop(cx) };
        self.it_cov(cx, OpKind::ItCount, i, 0);
        let io = self.its.remove(i);
        let want = io.model.len();
        let r = with_it!(io.it; it, N => { let _ = N::USIZE; lib(move || it.count()) });
        match r {
            Ok(c) => {
                if cx.checks.c06 && c != want {
                    fail("C06-return-value", format!("count() returned {c} with {want} elements still to come"));
                }
            }
            Err(p) => on_panic(cx, "count", p),
        }
    }

    pub fn op_it_last(&mut self, cx: &mut Cx, a: [u32; N_ARGS]) {
        let Some(i) = pick_len(self.its.len(), a[0]) else { return self.noop(cx) };
        self.it_cov(cx, OpKind::ItLast, i, 0);
        let io = self.its.remove(i);
        let want = io.model.back().copied();
        let r = with_it!(io.it; it, N => { let _ = N::USIZE; lib(move || it.last()) });
        match r {
            Ok(got) => {
                let got_id = got.as_ref().map(|e| e.observe(939));
                if cx.checks.c06 {
                    let ok = if E::HAS_ID { got_id == want } else { got_id.is_some() == want.is_some() };
                    if !ok {
                        fail("C06-return-value", format!("last() returned {got_id:?}, a queue returns {want:?}"));
                    }
                }
                if let Some(e) = got {
                    self.hand_back(cx, e, a[1]);
                }
            }
            Err(p) => on_panic(cx, "last", p),
        }
    }

    pub fn op_it_debug(&mut self, cx: &mut Cx, a: [u32; N_ARGS]) {
        let Some(i) = pick_len(self.its.len(), a[0]) else { return self.noop(cx) };
        self.it_cov(cx, OpKind::ItDebug, i, 0);
        let io = &self.its[i];
        let r = with_it!(&io.it; it, N => { let _ = N::USIZE; lib(|| { let _g = enter(Ctx::Infra); format!("{:?}", it) }) });
        match r {
            Ok(s) => {
                if cx.checks.c06 {
                    // the elements shown (tokens `#id`), in order — punctuation and wrapper are free
                    let (shown, list) = infra(|| {
                        let mut shown: Vec<String> = Vec::new();
                        let b = s.as_bytes();
                        let mut i = 0;
                        while i < b.len() {
                            if b[i] == b'#' {
                                let mut j = i + 1;
                                while j < b.len() && b[j].is_ascii_digit() {
                                    j += 1;
                                }
                                shown.push(s[i..j].to_string());
                                i = j;
                            } else {
                                i += 1;
                            }
                        }
                        let list: Vec<String> = io.model.iter().map(|id| E::debug_of(*id)).collect();
                        (shown, list)
                    });
                    if shown != list {
                        fail("C06-debug", format!("Debug printed {s:?}, the remaining elements are {list:?}"));
                    }
                }
            }
            Err(p) => on_panic(cx, "iterator Debug", p),
        }
    }

    pub fn op_it_collect(&mut self, cx: &mut Cx, a: [u32; N_ARGS]) {
        let Some(i) = pick_len(self.its.len(), a[0]) else { return self.noop(cx) };
        self.it_cov(cx, OpKind::ItCollect, i, 0);
        let io = self.its.remove(i);
        let rem = io.model.len();
        // mode 0: collect into the length that fits, if it is in the lane; otherwise a chosen length
        let li = match LENS.iter().position(|&l| l == rem) {
            Some(li) if a[1] % 4 != 3 => li,
            _ => lens_idx(a[2]),
        };
        let target = LENS[li];
        let want: Vec<u32> = infra(|| io.model.iter().copied().collect());
        let boxed = a[1] % 4 == 2;
        enum Out<E> {
            A(Arr<E>),
            B(Bx<E>),
        }
        let r = with_it!(io.it; it, N => { let _ = N::USIZE; with_len!(li; R => lib(move || {
            if boxed {
                GenericArray::<E, R>::try_boxed_from_iter(it).map(|b| Out::B(Bx::from(b)))
            } else {
                GenericArray::<E, R>::try_from_iter(it).map(|a| Out::A(Arr::from(a)))
            }
        })) });
        match r {
            Ok(Ok(out)) => {
                if target != rem && cx.checks.c07 {
                    fail("C07-wrong-length-accepted", format!("collecting {rem} remaining elements into length {target} returned Ok"));
                }
                let got = match &out {
                    Out::A(arr) => with_arr!(arr; x, N => { let _ = N::USIZE; ids_of(x.as_slice(), 940) }),
                    Out::B(bx) => with_bx!(bx; x, N => { let _ = N::USIZE; ids_of(x.as_slice(), 940) }),
                };
                if cx.checks.c06 && E::HAS_ID && got != want {
                    fail("C06-collect-order", format!("collecting the iterator gave {got:?}, a queue yields {want:?}"));
                }
                match out {
                    Out::A(arr) => self.put_arr(cx, arr),
                    Out::B(bx) => self.put_bx(cx, bx),
                }
            }
            Ok(Err(_)) => {
                if target == rem && cx.checks.c07 {
                    fail("C07-right-length-rejected", format!("collecting {rem} remaining elements into length {target} returned LengthError"));
                }
                cx.probe("collect of a by-value iterator into the wrong length");
            }
            Err(p) => on_panic(cx, "collect from iterator", p),
        }
    }

    /// `dst.clone_from(&src)` on two by-value iterators of the same array type
    pub fn op_it_clone_from(&mut self, cx: &mut Cx, a: [u32; N_ARGS]) {
        let Some(i) = pick_len(self.its.len(), a[0]) else { return self.noop(cx) };
        let n = self.its[i].it.len();
        let partners: Vec<usize> = infra(|| (0..self.its.len()).filter(|&j| j != i && self.its[j].it.len() == n).collect());
        let Some(pj) = pick_len(partners.len(), a[1]) else { return self.noop(cx) };
        let j = partners[pj];
        self.it_cov(cx, OpKind::ItCloneFrom, i, self.its[j].model.len() as u64);
        // take the destination out so that both can be borrowed
        let mut dst = self.its.remove(i);
        let j = if j > i { j - 1 } else { j };
        let src = &self.its[j];
        ledger::with(|s| s.clones.clear());
        let r = with_it_pair!((&mut dst.it, &src.it); d, s0, N => { let _ = N::USIZE; lib(|| d.clone_from(s0)) }; _o => unreachable!());
        let clones = ledger::with(|s| s.clones.clone());
        let want: Vec<u32> = infra(|| src.model.iter().copied().collect());
        match r {
            Ok(()) => {
                // the destination now yields clones of the source's remaining elements, in queue order
                let got = with_it!(&dst.it; it, N => { let _ = N::USIZE; ids_of(it.as_slice(), 949) });
                if cx.checks.c06 {
                    if E::HAS_ID {
                        let origin: Vec<u32> = infra(|| got.iter().map(|g| clone_origin(&clones, *g, &want)).collect());
                        if origin != want {
                            fail("C06-clone", format!("clone_from a source with remaining {want:?} left the destination with clones of {origin:?}"));
                        }
                    } else if got.len() != want.len() {
                        fail("C06-clone", format!("clone_from a source with {} remaining left the destination with {} elements", want.len(), got.len()));
                    }
                }
                infra(|| {
                    // what the destination held before may be released any time until it is gone
                    let old: Vec<u32> = dst.model.iter().copied().filter(|&id| E::HAS_ID && ledger::is_live(id)).collect();
                    dst.deferred.extend(old);
                    dst.model = got.into_iter().collect();
                    dst.front = 0;
                });
                self.put_it(cx, dst);
            }
            Err(p) => {
                on_panic(cx, "iterator clone_from", p);
                // whatever the destination holds now is re-read through as_slice
                infra(|| self.its.push(dst));
                let k = self.its.len() - 1;
                self.resync_it(k);
            }
        }
    }

}
