//! The allocator seam: a recording / failing global allocator wrapping `System`.
//!
//! Every block is recorded in a fixed-size open-addressing table (no allocation
//! inside the allocator). Blocks are tagged with the *context* in which they were
//! requested. Addresses never enter a log or a decision; only flags and counts do.

use std::alloc::{GlobalAlloc, Layout, System};
use std::cell::Cell;
use std::sync::atomic::{AtomicBool, AtomicI64, AtomicU64, Ordering::*};

#[derive(Copy, Clone, PartialEq, Eq, Debug)]
#[repr(u8)]
pub enum Ctx {
    /// simulator bookkeeping (ledger, logs, driver)
    Infra = 0,
    /// harness code building workload objects (element payloads, source Vecs)
    Work = 1,
    /// control is inside a generic_array call
    Lib = 2,
    /// heap payload of a tracked element (its leak is an element leak, not a library block)
    Payload = 3,
}

thread_local! {
    static CTX: Cell<u8> = const { Cell::new(0) };
}

pub struct CtxGuard(u8);

#[inline]
pub fn enter(c: Ctx) -> CtxGuard {
    CtxGuard(CTX.with(|x| x.replace(c as u8)))
}

impl Drop for CtxGuard {
    #[inline]
    fn drop(&mut self) {
        CTX.with(|x| x.set(self.0));
    }
}

#[inline]
fn cur_ctx() -> u8 {
    // try_with: TLS may be gone during thread teardown
    CTX.try_with(|x| x.get()).unwrap_or(0)
}

pub const F_ZERO_SIZE: u64 = 1;
pub const F_LAYOUT_MISMATCH: u64 = 2;
pub const F_UNKNOWN_FREE: u64 = 4;
pub const F_TABLE_FULL: u64 = 8;

static FLAGS: AtomicU64 = AtomicU64::new(0);
/// all allocator events (any context) — used for "no allocator interaction" windows
static EVENTS: AtomicU64 = AtomicU64::new(0);
/// allocation requests (alloc/realloc/alloc_zeroed) made in Lib context
static LIB_ALLOCS: AtomicU64 = AtomicU64::new(0);
/// if >= 0: the Lib-context allocation request with this ordinal returns null
static FAIL_AT: AtomicI64 = AtomicI64::new(-1);
static FAIL_FIRED: AtomicU64 = AtomicU64::new(0);
/// largest single request (alloc / realloc new size) since the last `window_begin`
static WINDOW_MAX: AtomicU64 = AtomicU64::new(0);
static LIVE: [AtomicI64; 4] = [AtomicI64::new(0), AtomicI64::new(0), AtomicI64::new(0), AtomicI64::new(0)];
/// last flagged detail (size, align) for messages
static LAST_DETAIL: [AtomicU64; 4] = [
    AtomicU64::new(0),
    AtomicU64::new(0),
    AtomicU64::new(0),
    AtomicU64::new(0),
];

#[derive(Copy, Clone)]
struct Entry {
    addr: usize,
    size: usize,
    align: u32,
    ctx: u8,
}

// under Miri a smaller table (every static byte is interpreted)
const CAP_BITS: usize = if cfg!(miri) { 14 } else { 19 };
const CAP: usize = 1 << CAP_BITS;
const EMPTY: Entry = Entry {
    addr: 0,
    size: 0,
    align: 0,
    ctx: 0,
};

struct Table {
    lock: AtomicBool,
    e: std::cell::UnsafeCell<[Entry; CAP]>,
    n: std::cell::UnsafeCell<usize>,
}
unsafe impl Sync for Table {}

static TABLE: Table = Table {
    lock: AtomicBool::new(false),
    e: std::cell::UnsafeCell::new([EMPTY; CAP]),
    n: std::cell::UnsafeCell::new(0),
};

#[inline]
fn slot_of(addr: usize) -> usize {
    ((addr >> 3).wrapping_mul(0x9E37_79B9_7F4A_7C15usize)) >> (usize::BITS as usize - CAP_BITS)
}

struct Locked;
impl Locked {
    #[inline]
    fn new() -> Locked {
        while TABLE
            .lock
            .compare_exchange_weak(false, true, Acquire, Relaxed)
            .is_err()
        {
            std::hint::spin_loop();
        }
        Locked
    }
    #[inline]
    fn tab(&mut self) -> &mut [Entry; CAP] {
        unsafe { &mut *TABLE.e.get() }
    }
    fn insert(&mut self, en: Entry) {
        let n = unsafe { &mut *TABLE.n.get() };
        if *n >= CAP / 2 {
            FLAGS.fetch_or(F_TABLE_FULL, Relaxed);
            return;
        }
        let t = self.tab();
        let mut i = slot_of(en.addr);
        while t[i].addr != 0 {
            i = (i + 1) & (CAP - 1);
        }
        t[i] = en;
        *n += 1;
    }
    fn find(&mut self, addr: usize) -> Option<usize> {
        let t = self.tab();
        let mut i = slot_of(addr);
        while t[i].addr != 0 {
            if t[i].addr == addr {
                return Some(i);
            }
            i = (i + 1) & (CAP - 1);
        }
        None
    }
    /// linear-probing deletion with backward shift (no tombstones)
    fn remove(&mut self, mut i: usize) {
        let n = unsafe { &mut *TABLE.n.get() };
        *n -= 1;
        let t = self.tab();
        let mut j = i;
        loop {
            j = (j + 1) & (CAP - 1);
            if t[j].addr == 0 {
                break;
            }
            let k = slot_of(t[j].addr);
            // can entry j stay where it is? it can iff k is cyclically in (i, j]
            let stays = if i <= j { i < k && k <= j } else { i < k || k <= j };
            if !stays {
                t[i] = t[j];
                i = j;
            }
        }
        t[i] = EMPTY;
    }
}
impl Drop for Locked {
    #[inline]
    fn drop(&mut self) {
        TABLE.lock.store(false, Release);
    }
}

pub struct SimAlloc;

#[inline]
fn flag(f: u64, a: u64, b: u64, c: u64, d: u64) {
    if FLAGS.fetch_or(f, Relaxed) & f == 0 {
        LAST_DETAIL[0].store(a, Relaxed);
        LAST_DETAIL[1].store(b, Relaxed);
        LAST_DETAIL[2].store(c, Relaxed);
        LAST_DETAIL[3].store(d, Relaxed);
    }
}

#[inline]
fn should_fail(ctx: u8) -> bool {
    if ctx != Ctx::Lib as u8 {
        return false;
    }
    let k = LIB_ALLOCS.fetch_add(1, Relaxed) as i64;
    if FAIL_AT.load(Relaxed) == k {
        FAIL_FIRED.fetch_add(1, Relaxed);
        true
    } else {
        false
    }
}

unsafe impl GlobalAlloc for SimAlloc {
    unsafe fn alloc(&self, layout: Layout) -> *mut u8 {
        let ctx = cur_ctx();
        EVENTS.fetch_add(1, Relaxed);
        WINDOW_MAX.fetch_max(layout.size() as u64, Relaxed);
        if layout.size() == 0 && ctx != 0 {
            flag(F_ZERO_SIZE, 0, layout.align() as u64, 0, 0);
        }
        if should_fail(ctx) {
            return std::ptr::null_mut();
        }
        let p = System.alloc(layout);
        if !p.is_null() {
            let mut l = Locked::new();
            l.insert(Entry {
                addr: p as usize,
                size: layout.size(),
                align: layout.align() as u32,
                ctx,
            });
            LIVE[ctx as usize].fetch_add(1, Relaxed);
        }
        p
    }

    unsafe fn alloc_zeroed(&self, layout: Layout) -> *mut u8 {
        let ctx = cur_ctx();
        EVENTS.fetch_add(1, Relaxed);
        WINDOW_MAX.fetch_max(layout.size() as u64, Relaxed);
        if layout.size() == 0 && ctx != 0 {
            flag(F_ZERO_SIZE, 0, layout.align() as u64, 0, 0);
        }
        if should_fail(ctx) {
            return std::ptr::null_mut();
        }
        let p = System.alloc_zeroed(layout);
        if !p.is_null() {
            let mut l = Locked::new();
            l.insert(Entry {
                addr: p as usize,
                size: layout.size(),
                align: layout.align() as u32,
                ctx,
            });
            LIVE[ctx as usize].fetch_add(1, Relaxed);
        }
        p
    }

    unsafe fn dealloc(&self, ptr: *mut u8, layout: Layout) {
        EVENTS.fetch_add(1, Relaxed);
        let mut l = Locked::new();
        match l.find(ptr as usize) {
            Some(i) => {
                let en = l.tab()[i];
                if en.size != layout.size() || en.align as usize != layout.align() {
                    flag(
                        F_LAYOUT_MISMATCH,
                        en.size as u64,
                        en.align as u64,
                        layout.size() as u64,
                        layout.align() as u64,
                    );
                }
                l.remove(i);
                LIVE[en.ctx as usize].fetch_sub(1, Relaxed);
                drop(l);
                // release with the layout it was requested with, so that the process survives
                System.dealloc(
                    ptr,
                    Layout::from_size_align_unchecked(en.size, en.align as usize),
                );
            }
            None => {
                drop(l);
                if FLAGS.load(Relaxed) & F_TABLE_FULL != 0 {
                    System.dealloc(ptr, layout);
                } else {
                    // double free or foreign pointer: skip the real free so we survive to report
                    flag(F_UNKNOWN_FREE, layout.size() as u64, layout.align() as u64, 0, 0);
                }
            }
        }
    }

    unsafe fn realloc(&self, ptr: *mut u8, layout: Layout, new_size: usize) -> *mut u8 {
        let ctx = cur_ctx();
        EVENTS.fetch_add(1, Relaxed);
        WINDOW_MAX.fetch_max(new_size as u64, Relaxed);
        if new_size == 0 && ctx != 0 {
            flag(F_ZERO_SIZE, 1, layout.align() as u64, 0, 0);
        }
        let found = {
            let mut l = Locked::new();
            match l.find(ptr as usize) {
                Some(i) => {
                    let en = l.tab()[i];
                    if en.size != layout.size() || en.align as usize != layout.align() {
                        flag(
                            F_LAYOUT_MISMATCH,
                            en.size as u64,
                            en.align as u64,
                            layout.size() as u64,
                            layout.align() as u64,
                        );
                    }
                    Some(en)
                }
                None => None,
            }
        };
        let en = match found {
            Some(en) => en,
            None => {
                if FLAGS.load(Relaxed) & F_TABLE_FULL != 0 {
                    return System.realloc(ptr, layout, new_size);
                }
                flag(F_UNKNOWN_FREE, layout.size() as u64, layout.align() as u64, 1, 0);
                return std::ptr::null_mut();
            }
        };
        if should_fail(ctx) {
            return std::ptr::null_mut();
        }
        let real = Layout::from_size_align_unchecked(en.size, en.align as usize);
        let p = System.realloc(ptr, real, new_size);
        if !p.is_null() {
            let mut l = Locked::new();
            if let Some(i) = l.find(ptr as usize) {
                l.remove(i);
            }
            l.insert(Entry {
                addr: p as usize,
                size: new_size,
                align: en.align,
                ctx: en.ctx,
            });
        }
        p
    }
}

// ---- inspection API used by the oracles -------------------------------------

pub fn flags() -> u64 {
    FLAGS.load(Relaxed)
}
pub fn clear_flags() {
    FLAGS.store(0, Relaxed);
}
pub fn flag_detail() -> [u64; 4] {
    [
        LAST_DETAIL[0].load(Relaxed),
        LAST_DETAIL[1].load(Relaxed),
        LAST_DETAIL[2].load(Relaxed),
        LAST_DETAIL[3].load(Relaxed),
    ]
}
pub fn window_begin() {
    WINDOW_MAX.store(0, Relaxed);
}
pub fn window_max_request() -> u64 {
    WINDOW_MAX.load(Relaxed)
}
pub fn events() -> u64 {
    EVENTS.load(Relaxed)
}
pub fn lib_allocs() -> u64 {
    LIB_ALLOCS.load(Relaxed)
}
pub fn reset_lib_allocs() {
    LIB_ALLOCS.store(0, Relaxed);
}
/// Arm: the Lib-context allocation request with ordinal `k` (counted from now) fails.
pub fn arm_alloc_failure(k: i64) {
    LIB_ALLOCS.store(0, Relaxed);
    FAIL_FIRED.store(0, Relaxed);
    FAIL_AT.store(k, Relaxed);
}
pub fn disarm_alloc_failure() {
    FAIL_AT.store(-1, Relaxed);
}
pub fn alloc_failures_fired() -> u64 {
    FAIL_FIRED.load(Relaxed)
}
/// live blocks requested in Work or Lib context
pub fn live_workload_blocks() -> i64 {
    LIVE[1].load(Relaxed) + LIVE[2].load(Relaxed)
}
pub fn live_lib_blocks() -> i64 {
    LIVE[2].load(Relaxed)
}
/// After a run has been torn down nothing of it can still be in use: release every block that was
/// requested outside the Infra context (leaked element payloads, blocks leaked by the library under
/// a property that does not forbid it), so that leaks of one run neither accumulate in the table nor
/// are charged to a later run. Returns how many blocks were swept.
pub fn sweep_workload_blocks() -> u64 {
    if LIVE[1].load(Relaxed) + LIVE[2].load(Relaxed) + LIVE[3].load(Relaxed) <= 0 {
        return 0;
    }
    let mut swept = 0u64;
    loop {
        // collect a batch under the lock, free outside it
        let mut batch = [(0usize, 0usize, 0u32, 0u8); 64];
        let mut n = 0;
        {
            let mut l = Locked::new();
            for en in l.tab().iter() {
                if en.addr != 0 && en.ctx != 0 && n < batch.len() {
                    batch[n] = (en.addr, en.size, en.align, en.ctx);
                    n += 1;
                }
            }
            for b in &batch[..n] {
                if let Some(i) = l.find(b.0) {
                    l.remove(i);
                    LIVE[b.3 as usize].fetch_sub(1, Relaxed);
                }
            }
        }
        if n == 0 {
            break;
        }
        for b in &batch[..n] {
            unsafe { System.dealloc(b.0 as *mut u8, Layout::from_size_align_unchecked(b.1, b.2 as usize)) };
            swept += 1;
        }
    }
    swept
}

/// sizes of up to `max` live Work/Lib blocks (for messages only)
pub fn live_workload_sizes(max: usize) -> Vec<(usize, u32, u8)> {
    let mut out = Vec::new();
    let mut l = Locked::new();
    let mut tmp = [(0usize, 0u32, 0u8); 8];
    let mut n = 0;
    for en in l.tab().iter() {
        if en.addr != 0 && (en.ctx == 1 || en.ctx == 2) && n < tmp.len() && n < max {
            tmp[n] = (en.size, en.align, en.ctx);
            n += 1;
        }
    }
    drop(l);
    for x in &tmp[..n] {
        out.push(*x);
    }
    out.sort();
    out
}
