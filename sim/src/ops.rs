//! Operation alphabet (data) — what a trace is made of.

use crate::ledger::Seam;

macro_rules! opkinds {
    ($($name:ident = $s:literal,)*) => {
        #[derive(Copy, Clone, PartialEq, Eq, Debug, Hash, PartialOrd, Ord)]
        #[repr(u8)]
        pub enum OpKind { $($name,)* }
        pub const ALL_OPS: &[OpKind] = &[$(OpKind::$name,)*];
        impl OpKind {
            pub fn name(self) -> &'static str { match self { $(OpKind::$name => $s,)* } }
            pub fn from_name(s: &str) -> Option<OpKind> { match s { $($s => Some(OpKind::$name),)* _ => None } }
        }
    };
}

opkinds! {
    // construction
    Generate = "generate",            // [len_idx, form(0 owned,1 &,2 &mut)]
    DefaultArr = "default",           // [len_idx]
    CloneArr = "clone",               // [slot]
    Collect = "collect",              // [len_idx, count, hint_policy, flags(bit0 unfused, bits1.. entry), extra]
    NativeRoundtrip = "native_roundtrip", // [slot]
    TupleRoundtrip = "tuple_roundtrip",   // [slot]
    // by-value iterator
    IntoIter = "into_iter",           // [slot]
    ItNext = "it_next",               // [slot, disp]
    ItNextBack = "it_next_back",      // [slot, disp]
    ItNth = "it_nth",                 // [slot, n, disp]
    ItNthBack = "it_nth_back",        // [slot, n, disp]
    ItLen = "it_len",                 // [slot]
    ItWrite = "it_write",             // [slot, idx]
    ItClone = "it_clone",             // [slot]
    ItFold = "it_fold",               // [slot, beh]
    ItRfold = "it_rfold",             // [slot, beh]
    ItCount = "it_count",             // [slot]
    ItLast = "it_last",               // [slot, disp]
    ItDebug = "it_debug",             // [slot]
    ItCollect = "it_collect",         // [slot, mode, len_idx]
    ItCloneFrom = "it_clone_from",    // [dst_slot, src_slot]
    CloneFromArr = "clone_from",      // [dst_slot, src_slot]
    // functional
    Map = "map",                      // [slot, beh, form(0 owned,1 &,2 &mut,3 boxed)]
    Zip = "zip",                      // [slot_a, slot_b, beh, form(0..8 stack lhs*3+rhs, 9 boxed)]
    Fold = "fold",                    // [slot, beh, form(0 owned,1 &,2 &mut,3 boxed)]
    // sequence
    Append = "append",                // [slot, front]
    Pop = "pop",                      // [slot, front]
    Split = "split",                  // [slot, k]
    Concat = "concat",                // [slot_a, slot_b]
    Remove = "remove",                // [slot, idx, swap]
    Flatten = "flatten",              // [nest_slot]
    Unflatten = "unflatten",          // [slot, n]
    NestGen = "nest_generate",        // [nest_idx]
    NestClone = "nest_clone",         // [nest_slot]
    NestIntoIter = "nest_into_iter",  // [nest_slot, take, back]
    // heap interop
    ArrToVec = "arr_to_vec",          // [slot, boxed_slice]
    ArrBox = "arr_box",               // [slot]
    Unbox = "unbox",                  // [bx_slot]
    VecMake = "vec_make",             // [len, spare, boxed_slice]
    VecToArr = "vec_to_arr",          // [vec_slot, mode, len_idx]
    VecToBx = "vec_to_bx",            // [vec_slot, mode, len_idx]
    BxToVec = "bx_to_vec",            // [bx_slot, boxed_slice]
    BoxedGenerate = "boxed_generate", // [len_idx]
    DefaultBoxed = "default_boxed",   // [len_idx]
    BxClone = "bx_clone",             // [bx_slot]
    BxIntoIter = "bx_into_iter",      // [bx_slot]
    VitNext = "vit_next",             // [vit_slot, back]
    BoxArrMacro = "box_arr_macro",    // [which]
    // internals feature
    BuilderRun = "builder_run",       // [len_idx, p, kind(0 ArrayBuilder,1 Intrusive via iter_position; 2, 3 the same via extend)]
    ConsumerRun = "consumer_run",     // [slot, p]
    // caller side
    DropObj = "drop",                 // [kind(0 arr,1 it,2 bx,3 vec,4 nest,5 vit), slot]
    ReleaseLoose = "release_loose",   // [idx]
    // serde
    SerRecord = "ser_record",         // [slot]
    SerReal = "ser_real",             // [slot, format]
    DeScripted = "de_scripted",       // [len_idx, count, hint0, running, flags]
    DeReal = "de_real",               // [len_idx, delta, format, cut, corrupt]
    // self-contained operations on arrays of larger-than-a-page elements
    WideOp = "wide",                  // [which(0..11), len(0..7 -> 0,1,2,3,5,8,17), delta, schedule seed, schedule length]
}

pub const N_ARGS: usize = 5;

#[derive(Clone, Debug, PartialEq, Eq)]
pub struct Op {
    pub kind: OpKind,
    pub args: [u32; N_ARGS],
    pub faults: Vec<(Seam, u32)>,
}

impl Op {
    pub fn new(kind: OpKind, args: &[u32]) -> Op {
        let mut a = [0u32; N_ARGS];
        a[..args.len()].copy_from_slice(args);
        Op {
            kind,
            args: a,
            faults: Vec::new(),
        }
    }
    pub fn with_fault(mut self, seam: Seam, k: u32) -> Op {
        self.faults.push((seam, k));
        self
    }
}

#[derive(Copy, Clone, PartialEq, Eq, Debug, Hash, PartialOrd, Ord)]
pub enum Prop {
    C03,
    C04,
    C05,
    C06,
    C07,
    C08,
    C15,
    C16,
    C17,
}
pub const ALL_PROPS: &[Prop] = &[
    Prop::C03,
    Prop::C04,
    Prop::C05,
    Prop::C06,
    Prop::C07,
    Prop::C08,
    Prop::C15,
    Prop::C16,
    Prop::C17,
];
impl Prop {
    pub fn name(self) -> &'static str {
        match self {
            Prop::C03 => "C03",
            Prop::C04 => "C04",
            Prop::C05 => "C05",
            Prop::C06 => "C06",
            Prop::C07 => "C07",
            Prop::C08 => "C08",
            Prop::C15 => "C15",
            Prop::C16 => "C16",
            Prop::C17 => "C17",
        }
    }
    pub fn from_name(s: &str) -> Option<Prop> {
        ALL_PROPS.iter().copied().find(|p| p.name() == s)
    }
    pub fn num(self) -> u64 {
        self.name()[1..].parse().unwrap()
    }
}

/// Which oracles are active in a run. I1–I3 (double drop, garbage, observed-after-drop) and
/// "the library panicked on its own" are always on — they are memory-safety violations under every
/// property — everything else is switched on by the property being checked so that a check does
/// not report what its property does not state.
#[derive(Copy, Clone, Debug)]
pub struct Checks {
    /// I4: every live element is reachable from the pool after each operation (no leak)
    pub conserve: bool,
    /// queue model of the by-value iterator is compared call by call
    pub c06: bool,
    /// collect oracle
    pub c07: bool,
    /// callback history oracle
    pub c08: bool,
    /// heap interop: contents, length, allocation reuse
    pub c15: bool,
    /// allocator flags and block leaks
    pub c16: bool,
    /// serde oracles
    pub c17: bool,
}

impl Checks {
    pub fn for_prop(p: Prop) -> Checks {
        let mut c = Checks {
            conserve: false,
            c06: false,
            c07: false,
            c08: false,
            c15: false,
            c16: false,
            c17: false,
        };
        match p {
            Prop::C03 | Prop::C04 => c.conserve = true,
            // C05 allows leaks after a destructor panic: only I1-I3 are judged
            Prop::C05 => {}
            Prop::C06 => c.c06 = true,
            Prop::C07 => {
                c.c07 = true;
                c.conserve = true;
            }
            Prop::C08 => c.c08 = true,
            Prop::C15 => {
                c.c15 = true;
                c.conserve = true;
            }
            Prop::C16 => c.c16 = true,
            Prop::C17 => {
                c.c17 = true;
                c.conserve = true;
            }
        }
        c
    }
}
