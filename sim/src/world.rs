//! The simulated world: a small pool of live objects and the executor that applies
//! operations of a trace to it through the *real* generic_array API.

use crate::alloc::{self, enter, Ctx};
use crate::elem::Elem;
use crate::gen::*;
use crate::ledger::{self, Seam, SimPanic};
use crate::ops::*;
use generic_array::functional::FunctionalSequence;
use generic_array::sequence::*;
use generic_array::{GenericArray, LengthError};
use std::collections::{BTreeSet, VecDeque};
use std::panic::{catch_unwind, AssertUnwindSafe};

use generic_array::typenum::Unsigned;
#[allow(unused_imports)]
use crate::ops::OpKind;


/// A group of executors: a thin wrapper around the world. Its methods live in the group's own
/// module (and therefore codegen unit); fields and shared methods of the world are reached
/// through Deref.
#[macro_export]
macro_rules! ops_group {
    ($name:ident) => {
        pub struct $name<'a, E: $crate::elem::Elem>(pub &'a mut $crate::world::World<E>);
        impl<'a, E: $crate::elem::Elem> core::ops::Deref for $name<'a, E> {
            type Target = $crate::world::World<E>;
            #[inline]
            fn deref(&self) -> &$crate::world::World<E> {
                self.0
            }
        }
        impl<'a, E: $crate::elem::Elem> core::ops::DerefMut for $name<'a, E> {
            #[inline]
            fn deref_mut(&mut self) -> &mut $crate::world::World<E> {
                self.0
            }
        }
    };
}

pub const POOL_CAP: usize = 3;
pub const LOOSE_CAP: usize = 12;

pub struct ItObj<E> {
    pub it: It<E>,
    /// queue model: ids still to come, front to back (0s for elements without identity)
    pub model: VecDeque<u32>,
    /// how many elements have been consumed from the front (coverage only)
    pub front: usize,
    /// elements this iterator was told to skip (nth / nth_back) that were still live when the call
    /// returned: an implementation may release them lazily, any time until the iterator is gone
    pub deferred: Vec<u32>,
    /// the same for elements without identity (a count)
    pub deferred_anon: u64,
}

pub enum VecObj<E> {
    V(Vec<E>),
    B(Box<[E]>),
}
impl<E> VecObj<E> {
    pub fn as_slice(&self) -> &[E] {
        match self {
            VecObj::V(v) => v,
            VecObj::B(b) => b,
        }
    }
}

pub struct World<E: Elem> {
    pub arrs: Vec<Arr<E>>,
    pub its: Vec<ItObj<E>>,
    pub bxs: Vec<Bx<E>>,
    pub vecs: Vec<VecObj<E>>,
    pub nests: Vec<Nest<E>>,
    pub vits: Vec<std::vec::IntoIter<E>>,
    pub loose: Vec<E>,
}

/// How a library call ended.
pub enum Panicked {
    Injected(SimPanic),
    Other(String),
}

/// Run library code: context = Lib, unwinding caught.
pub fn lib<R>(f: impl FnOnce() -> R) -> Result<R, Panicked> {
    let g = enter(Ctx::Lib);
    let r = catch_unwind(AssertUnwindSafe(f));
    drop(g);
    match r {
        Ok(v) => Ok(v),
        Err(p) => {
            let _g = enter(Ctx::Infra);
            if let Some(sp) = p.downcast_ref::<SimPanic>() {
                let sp = *sp;
                drop(p);
                Err(Panicked::Injected(sp))
            } else {
                let msg = if let Some(s) = p.downcast_ref::<&'static str>() {
                    s.to_string()
                } else if let Some(s) = p.downcast_ref::<String>() {
                    s.clone()
                } else {
                    ledger::take_panic_msg().unwrap_or_else(|| "<non-string panic>".into())
                };
                drop(p);
                Err(Panicked::Other(msg))
            }
        }
    }
}

/// Per-run execution context: active oracles, coverage collectors.
pub struct Cx {
    pub checks: Checks,
    pub prop: Prop,
    /// abstract-state coverage keys of the property being checked
    pub cover: BTreeSet<u64>,
    /// rare-condition probes: name -> hits
    pub probes: std::collections::BTreeMap<&'static str, u64>,
    pub ops_executed: u64,
    pub ops_noop: u64,
    pub lib_panics_injected: u64,
    /// set by an op when an injected panic came out of it
    pub op_panicked: bool,
}

impl Cx {
    pub fn new(prop: Prop) -> Cx {
        Cx {
            checks: Checks::for_prop(prop),
            prop,
            cover: BTreeSet::new(),
            probes: Default::default(),
            ops_executed: 0,
            ops_noop: 0,
            lib_panics_injected: 0,
            op_panicked: false,
        }
    }
    #[inline]
    pub fn cov(&mut self, parts: &[u64]) {
        let _g = enter(Ctx::Infra);
        self.cover.insert(cov_hash(parts));
    }
    #[inline]
    pub fn probe(&mut self, name: &'static str) {
        let _g = enter(Ctx::Infra);
        *self.probes.entry(name).or_insert(0) += 1;
    }
}

fn infra<R>(f: impl FnOnce() -> R) -> R {
    let _g = enter(Ctx::Infra);
    f()
}

pub fn cov_hash(parts: &[u64]) -> u64 {
    let mut h: u64 = 0xcbf2_9ce4_8422_2325;
    for &p in parts {
        h ^= p.wrapping_add(0x9E37_79B9);
        h = h.wrapping_mul(0x0000_0100_0000_01B3);
        h ^= h >> 29;
    }
    h
}

pub fn fail(class: &'static str, detail: String) {
    ledger::violate(class, detail);
}

/// Handle the panic outcome of a library call in an operation that has no documented panic.
pub fn on_panic(cx: &mut Cx, what: &str, p: Panicked) {
    match p {
        Panicked::Injected(_) => {
            cx.lib_panics_injected += 1;
            cx.op_panicked = true;
        }
        Panicked::Other(msg) => {
            cx.op_panicked = true;
            fail(
                "unexpected-panic",
                format!("{what}: the library panicked on its own: {msg}"),
            );
        }
    }
}

pub fn ids_of<E: Elem>(s: &[E], site: u32) -> Vec<u32> {
    let _g = enter(Ctx::Infra);
    s.iter().map(|e| e.observe(site)).collect()
}

#[inline]
fn pick(len: usize, a: u32) -> Option<usize> {
    if len == 0 {
        None
    } else {
        Some(a as usize % len)
    }
}

/// State shared with callbacks of one operation.
pub struct Cb<E> {
    pub beh: u32,
    pub calls: u32,
    /// ids of the arguments of each call (one or two per call)
    pub args: Vec<(u32, u32)>,
    /// ids of the values returned by each call
    pub outs: Vec<u32>,
    pub stash: Vec<E>,
}
impl<E: Elem> Cb<E> {
    pub fn new(beh: u32) -> Self {
        let _g = enter(Ctx::Infra);
        Cb {
            beh,
            calls: 0,
            args: Vec::new(),
            outs: Vec::new(),
            stash: Vec::new(),
        }
    }
    pub fn record(&mut self, a: u32, b: u32) {
        let _g = enter(Ctx::Infra);
        self.args.push((a, b));
    }
    pub fn out(&mut self, e: E) -> E {
        let id = e.observe(911);
        let _g = enter(Ctx::Infra);
        self.outs.push(id);
        e
    }
    pub fn keep(&mut self, e: E) {
        let _g = enter(Ctx::Infra);
        self.stash.push(e);
    }
}

/// Closure argument forms: owned element, shared and mutable reference.
pub trait Arg<E: Elem> {
    /// observe; returns (id, a value the callback now owns). By-value forms always hand over the
    /// element; with `take` set a shared reference hands over a clone of the element (Clone seam)
    /// and a mutable reference swaps a fresh element in and hands over the old one.
    fn open(self, site: u32, take: bool) -> (u32, Option<E>);
}
impl<E: Elem> Arg<E> for E {
    fn open(self, site: u32, _take: bool) -> (u32, Option<E>) {
        let id = self.observe(site);
        (id, Some(self))
    }
}
impl<'a, E: Elem> Arg<E> for &'a E {
    fn open(self, site: u32, take: bool) -> (u32, Option<E>) {
        let id = self.observe(site);
        (id, if take { Some(self.clone()) } else { None })
    }
}
impl<'a, E: Elem> Arg<E> for &'a mut E {
    fn open(self, site: u32, take: bool) -> (u32, Option<E>) {
        let id = self.observe(site);
        (id, if take { Some(core::mem::replace(self, E::make())) } else { None })
    }
}

/// A second element type for mixed-type zip/map: plain data, no `Drop`, not `Copy`.
/// (Selects the branches of the library that are keyed on `needs_drop` of each side separately.)
pub struct Plain(pub u32);
pub const PLAIN_TAG: u32 = 0x2000_0000;
impl<E: Elem> Arg<E> for Plain {
    fn open(self, _site: u32, _take: bool) -> (u32, Option<E>) {
        (PLAIN_TAG | self.0, None)
    }
}
impl<'a, E: Elem> Arg<E> for &'a Plain {
    fn open(self, _site: u32, _take: bool) -> (u32, Option<E>) {
        (PLAIN_TAG | self.0, None)
    }
}
impl<'a, E: Elem> Arg<E> for &'a mut Plain {
    fn open(self, _site: u32, _take: bool) -> (u32, Option<E>) {
        (PLAIN_TAG | self.0, None)
    }
}

/// Dispose of an owned input according to the behaviour: 0 = pass through as output when
/// possible, 1 = drop inside the callback, 2 = stash (stays live, goes to the loose pool).
fn dispose<E: Elem>(cb: &mut Cb<E>, e: Option<E>, allow_pass: bool) -> Option<E> {
    match e {
        None => None,
        Some(e) => match (cb.beh + cb.calls) % 3 {
            0 if allow_pass => Some(e),
            1 => {
                drop(e);
                None
            }
            _ => {
                cb.keep(e);
                None
            }
        },
    }
}

pub fn map_cb<E: Elem, A: Arg<E>>(cb: &mut Cb<E>, a: A) -> E {
    let _g = enter(Ctx::Work);
    ledger::tick(Seam::Closure);
    let take = (cb.beh + cb.calls) % 3 == 0;
    let (id, owned) = a.open(910, take);
    cb.record(id, 0);
    let pass = dispose(cb, owned, true);
    cb.calls += 1;
    let e = match pass {
        Some(e) => e,
        None => E::make(),
    };
    cb.out(e)
}

pub fn zip_cb<E: Elem, A: Arg<E>, B: Arg<E>>(cb: &mut Cb<E>, a: A, b: B) -> E {
    let _g = enter(Ctx::Work);
    ledger::tick(Seam::Closure);
    let take = (cb.beh + cb.calls) % 3 == 0;
    let (ida, oa) = a.open(910, take);
    let (idb, ob) = b.open(912, (cb.beh + cb.calls) % 3 == 2);
    cb.record(ida, idb);
    let pass = dispose(cb, oa, true);
    let _ = dispose(cb, ob, false);
    cb.calls += 1;
    let e = match pass {
        Some(e) => e,
        None => E::make(),
    };
    cb.out(e)
}

/// fold accumulator: a token chained through the calls plus the owned elements kept so far
pub struct Acc<E> {
    pub token: u64,
    pub kept: Vec<E>,
}
pub fn fold_cb<E: Elem, A: Arg<E>>(cb: &mut Cb<E>, mut acc: Acc<E>, a: A) -> Acc<E> {
    let _g = enter(Ctx::Work);
    ledger::tick(Seam::Closure);
    let take = (cb.beh + cb.calls) % 3 == 0;
    let (id, owned) = a.open(910, take);
    // args: (element id, low bits of the incoming token)
    cb.record(id, acc.token as u32);
    if let Some(e) = dispose(cb, owned, true) {
        acc.kept.push(e);
    }
    cb.calls += 1;
    acc.token = acc
        .token
        .wrapping_mul(0x0000_0100_0000_01B3)
        .wrapping_add(id as u64 + 1);
    {
        let _g = enter(Ctx::Infra);
        cb.outs.push(acc.token as u32);
    }
    acc
}
pub fn fold_expected(init: u64, ids: &[u32]) -> Vec<(u32, u32)> {
    let mut t = init;
    let mut v = Vec::new();
    for &id in ids {
        v.push((id, t as u32));
        t = t.wrapping_mul(0x0000_0100_0000_01B3).wrapping_add(id as u64 + 1);
    }
    v
}

impl<E: Elem> World<E> {
    pub fn new() -> Self {
        let _g = enter(Ctx::Infra);
        World {
            arrs: Vec::new(),
            its: Vec::new(),
            bxs: Vec::new(),
            vecs: Vec::new(),
            nests: Vec::new(),
            vits: Vec::new(),
            loose: Vec::new(),
        }
    }

    // ---- pool management -------------------------------------------------

    /// Drop something under the library context (element destructors may be armed to panic).
    pub fn drop_value<T>(&mut self, cx: &mut Cx, what: &str, v: T) {
        match lib(move || drop(v)) {
            Ok(()) => {}
            Err(p) => on_panic(cx, what, p),
        }
    }

    pub fn put_arr(&mut self, cx: &mut Cx, a: Arr<E>) {
        if self.arrs.len() >= POOL_CAP {
            let old = self.arrs.remove(0);
            self.drop_value(cx, "evict array", old);
        }
        let _g = enter(Ctx::Infra);
        self.arrs.push(a);
    }
    pub fn put_it(&mut self, cx: &mut Cx, it: ItObj<E>) {
        if self.its.len() >= POOL_CAP {
            let old = self.its.remove(0);
            self.drop_value(cx, "evict iterator", old.it);
        }
        let _g = enter(Ctx::Infra);
        self.its.push(it);
    }
    pub fn put_bx(&mut self, cx: &mut Cx, b: Bx<E>) {
        if self.bxs.len() >= POOL_CAP {
            let old = self.bxs.remove(0);
            self.drop_value(cx, "evict box", old);
        }
        let _g = enter(Ctx::Infra);
        self.bxs.push(b);
    }
    pub fn put_vec(&mut self, cx: &mut Cx, v: VecObj<E>) {
        if self.vecs.len() >= POOL_CAP {
            let old = self.vecs.remove(0);
            self.drop_value(cx, "evict vec", old);
        }
        let _g = enter(Ctx::Infra);
        self.vecs.push(v);
    }
    pub fn put_nest(&mut self, cx: &mut Cx, v: Nest<E>) {
        if self.nests.len() >= 2 {
            let old = self.nests.remove(0);
            self.drop_value(cx, "evict nested", old);
        }
        let _g = enter(Ctx::Infra);
        self.nests.push(v);
    }
    pub fn put_vit(&mut self, cx: &mut Cx, v: std::vec::IntoIter<E>) {
        if self.vits.len() >= 2 {
            let old = self.vits.remove(0);
            self.drop_value(cx, "evict vec iter", old);
        }
        let _g = enter(Ctx::Infra);
        self.vits.push(v);
    }
    pub fn put_loose(&mut self, cx: &mut Cx, e: E) {
        if self.loose.len() >= LOOSE_CAP {
            let old = self.loose.remove(0);
            self.drop_value(cx, "release loose", old);
        }
        let _g = enter(Ctx::Infra);
        self.loose.push(e);
    }
    pub fn put_loose_all(&mut self, cx: &mut Cx, v: Vec<E>) {
        for e in v {
            self.put_loose(cx, e);
        }
    }
    /// dispose of an element handed back by the library: keep (0) or drop now (1)
    pub fn hand_back(&mut self, cx: &mut Cx, e: E, disp: u32) {
        e.observe(920);
        if disp % 2 == 0 {
            self.put_loose(cx, e);
        } else {
            self.drop_value(cx, "drop returned element", e);
        }
    }

    /// Tear the whole world down (end of run). Destructors run under the library context.
    pub fn teardown(&mut self, cx: &mut Cx) {
        while let Some(x) = self.its.pop() {
            self.drop_value(cx, "teardown iterator", x.it);
        }
        while let Some(x) = self.arrs.pop() {
            self.drop_value(cx, "teardown array", x);
        }
        while let Some(x) = self.bxs.pop() {
            self.drop_value(cx, "teardown box", x);
        }
        while let Some(x) = self.vecs.pop() {
            self.drop_value(cx, "teardown vec", x);
        }
        while let Some(x) = self.nests.pop() {
            self.drop_value(cx, "teardown nested", x);
        }
        while let Some(x) = self.vits.pop() {
            self.drop_value(cx, "teardown vec iter", x);
        }
        while let Some(x) = self.loose.pop() {
            self.drop_value(cx, "teardown loose", x);
        }
    }

    // ---- conservation walk -----------------------------------------------

    /// Observe everything reachable from the pool through the public views and reconcile
    /// with the ledger.
    pub fn walk(&mut self, cx: &mut Cx) {
        let _g = enter(Ctx::Infra);
        ledger::walk_begin();
        let mut reach: u64 = 0;
        for a in &self.arrs {
            with_arr!(a; a, N => { for e in a.as_slice() { e.walk(); reach += 1; } let _ = N::USIZE; });
        }
        for io in &self.its {
            with_it!(&io.it; it, N => {
                let s = it.as_slice();
                let _ = N::USIZE;
                reach += s.len() as u64;
                if cx.checks.c06 && E::HAS_ID {
                    let got: Vec<u32> = s.iter().map(|e| e.walk()).collect();
                    let want: Vec<u32> = io.model.iter().copied().collect();
                    if got != want {
                        fail("C06-remaining-mismatch", format!("iterator as_slice shows ids {got:?}, the queue model has {want:?}"));
                    }
                } else {
                    if cx.checks.c06 && s.len() != io.model.len() {
                        fail("C06-remaining-mismatch", format!("iterator as_slice has {} elements, the queue model has {}", s.len(), io.model.len()));
                    }
                    for e in s { e.walk(); }
                }
            });
        }
        for b in &self.bxs {
            with_bx!(b; b, N => { for e in b.as_slice() { e.walk(); reach += 1; } let _ = N::USIZE; });
        }
        for v in &self.vecs {
            for e in v.as_slice() {
                e.walk();
                reach += 1;
            }
        }
        for n in &self.nests {
            with_nest!(n; n, N, M => { for inner in n.as_slice() { for e in inner.as_slice() { e.walk(); reach += 1; } } let _ = (N::USIZE, M::USIZE); });
        }
        for v in &self.vits {
            for e in v.as_slice() {
                e.walk();
                reach += 1;
            }
        }
        for e in &self.loose {
            e.walk();
            reach += 1;
        }
        if !E::TRACKED {
            return;
        }
        // Conservation (I4) is only judged for properties that state it. Where leaks are allowed
        // (C05) or not the property's business, unreachable live elements are simply left alone:
        // they stay live in the ledger, so that an implementation which releases them later —
        // for example an iterator that finishes an interrupted skip when it is dropped — is not
        // mistaken for a double drop. (Double drops of elements with identity are caught per id.)
        if !cx.checks.conserve {
            if !E::HAS_ID {
                let (c, d) = ledger::zt_balance();
                let live = c.saturating_sub(d);
                if live < reach {
                    fail(
                        "I1-double-drop",
                        format!("{} zero-sized elements are reachable from the pool but only {} are still live (some were dropped and are still owned)", reach, live),
                    );
                }
            }
            return;
        }
        if E::HAS_ID {
            if ledger::live_count() as u64 != reach {
                // skipped elements a live iterator may still own are not leaks (yet)
                for io in self.its.iter_mut() {
                    io.deferred.retain(|&id| ledger::is_live(id));
                }
                let un: Vec<u32> = ledger::walk_unreached(usize::MAX).into_iter().filter(|id| !self.its.iter().any(|io| io.deferred.contains(id))).take(8).collect();
                if !un.is_empty() {
                    fail(
                        "I4-leak",
                        format!("elements {un:?} are live but no longer reachable from any object the caller holds: they will never be dropped"),
                    );
                }
            }
        } else {
            let (c, d) = ledger::zt_balance();
            let live = c.saturating_sub(d);
            let deferred: u64 = self.its.iter().map(|io| io.deferred_anon).sum();
            if live > reach && live - reach > deferred {
                fail(
                    "I4-leak",
                    format!("{} zero-sized elements are live but only {} are reachable from the pool", live, reach),
                );
            } else if live < reach {
                fail(
                    "I1-double-drop",
                    format!("{} zero-sized elements are reachable from the pool but only {} are still live (some were dropped and are still owned)", reach, live),
                );
            }
        }
    }
}

/// Apply one run's trace. Returns the index of the op at which a violation was detected.
pub struct RunOutcome {
    pub violation: Option<(usize, ledger::Violation)>,
    pub hash: u64,
}

pub fn lens_idx(a: u32) -> usize {
    a as usize % LENS.len()
}

pub fn alloc_flag_text(f: u64) -> String {
    let d = alloc::flag_detail();
    let mut v = Vec::new();
    if f & alloc::F_ZERO_SIZE != 0 {
        v.push(format!("zero-size request (align {})", d[1]));
    }
    if f & alloc::F_LAYOUT_MISMATCH != 0 {
        v.push(format!(
            "block requested as (size {}, align {}) released/resized as (size {}, align {})",
            d[0], d[1], d[2], d[3]
        ));
    }
    if f & alloc::F_UNKNOWN_FREE != 0 {
        v.push("release of a block that is not allocated (double free or foreign pointer)".to_string());
    }
    v.join("; ")
}


impl<E: Elem> World<E> {
    pub fn noop(&mut self, cx: &mut Cx) {
        cx.ops_noop += 1;
    }

    pub fn it_cov(&self, cx: &mut Cx, kind: OpKind, i: usize, arg: u64) {
        let io = &self.its[i];
        let n = io.it.len() as u64;
        let front = io.front as u64;
        let back = front + io.model.len() as u64;
        cx.cov(&[kind as u64, n, front, back, arg]);
        if front > 0 && back < n {
            cx.probe("iterator op on an iterator consumed from both ends");
        }
        if io.model.is_empty() {
            cx.probe("iterator op on an exhausted iterator");
        }
    }

    /// after a destructor panic inside an iterator method the queue model is re-synchronised
    /// from observation (ids read through as_slice; the walk verifies each is live)
    pub fn resync_it(&mut self, i: usize) {
        let io = &mut self.its[i];
        let ids = with_it!(&io.it; it, N => { let _ = N::USIZE; ids_of(it.as_slice(), 934) });
        infra(|| {
            io.model = ids.into_iter().collect();
        });
    }

    pub fn check_cb_c08(&self, cx: &mut Cx, what: &str, cb: &Cb<E>, want_args: &[(u32, u32)], result: Option<Vec<u32>>) {
        if !cx.checks.c08 {
            return;
        }
        if E::HAS_ID {
            match &result {
                Some(got) => {
                    if cb.args != want_args {
                        fail("C08-call-order", format!("{what}: callback saw {:?}, expected {:?} (index order, once each)", cb.args, want_args));
                    }
                    if got != &cb.outs {
                        fail("C08-result", format!("{what}: result holds {got:?}, call i returned {:?}", cb.outs));
                    }
                }
                None => {
                    if !(cb.args.len() <= want_args.len() && cb.args[..] == want_args[..cb.args.len()]) {
                        fail("C08-call-order", format!("{what}: callback saw {:?} before the panic, expected a prefix of {:?}", cb.args, want_args));
                    }
                }
            }
        } else if result.is_some() && cb.args.len() != want_args.len() {
            fail("C08-call-order", format!("{what}: callback was called {} times for length {}", cb.args.len(), want_args.len()));
        }
    }
}

pub fn _unused(_: LengthError) {}
pub type Ga<E, N> = GenericArray<E, N>;
