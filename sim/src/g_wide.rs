//! Executors: self-contained operations on arrays of elements *larger than a page*.
//!
//! `Wide<E>` wraps an element of the run's kind in 4 KiB of padding plus a tail word, so that code
//! paths keyed on the element size (tiling by `4096 / size_of::<T>()`, "large element" fast paths,
//! staging buffers) are driven with drop-glue (`Wide<Tr>`), plain (`Wide<Pl>`) and padded zero-sized
//! payloads. The pool only holds arrays of `E`, so each of these operations builds its array, works
//! on it through the real API under the usual seams and faults, observes the outcome and lets go of
//! everything again: the ledger's invariants and walk then judge it like any other operation.
#![allow(unused_imports)]
use crate::alloc::{self, enter, Ctx};
use crate::elem::Elem;
use crate::ledger::{self, Seam};
use crate::ops::*;
use crate::world::*;
use generic_array::functional::FunctionalSequence;
use generic_array::sequence::*;
use generic_array::typenum::{Unsigned, U0, U1, U17, U2, U3, U5, U8};
use generic_array::sequence::{Concat, Lengthen, Remove, Shorten, Split};
use generic_array::{ArrayLength, GenericArray};

fn infra<R>(f: impl FnOnce() -> R) -> R {
    let _g = enter(Ctx::Infra);
    f()
}

pub const WIDE_PAD: usize = 4096;
/// number of scenarios
pub const N_WIDE: u32 = 11;
const TAIL: u32 = 0x7A11_0000;

#[repr(C)]
pub struct Wide<E> {
    e: E,
    pad: [u8; WIDE_PAD],
    tail: u32,
}
impl<E: Elem> Wide<E> {
    #[inline(never)]
    fn wrap(e: E, seq: u32) -> Wide<E> {
        Wide { e, pad: [0xA5; WIDE_PAD], tail: TAIL | (seq & 0xFFFF) }
    }
    /// observe: the inner element must be a live element and the far end of the value must have
    /// travelled with it; returns (id, sequence number stamped at creation)
    fn look(&self, site: u32) -> (u32, u32) {
        let id = self.e.observe(site);
        if self.tail & 0xFFFF_0000 != TAIL || self.pad[0] != 0xA5 || self.pad[WIDE_PAD - 1] != 0xA5 {
            fail("I2-garbage-observed", format!("a larger-than-a-page element was handed out with only part of its bytes in place (site {site})"));
        }
        (id, self.tail & 0xFFFF)
    }
}
impl<E: Elem> Clone for Wide<E> {
    fn clone(&self) -> Self {
        let seq = self.tail & 0xFFFF;
        Wide::wrap(self.e.clone(), seq)
    }
}
impl<E: Elem> Default for Wide<E> {
    fn default() -> Self {
        Wide::wrap(E::default(), 0xFFFF)
    }
}

// 17 elements of 4.1 KB: an array above 64 KiB made of few elements
const WLENS: [usize; 7] = [0, 1, 2, 3, 5, 8, 17];
macro_rules! with_wlen {
    ($i:expr; $N:ident => $body:expr) => {
        match $i {
            0 => { type $N = U0; $body }
            1 => { type $N = U1; $body }
            2 => { type $N = U2; $body }
            3 => { type $N = U3; $body }
            4 => { type $N = U5; $body }
            5 => { type $N = U8; $body }
            _ => { type $N = U17; $body }
        }
    };
}

/// what one self-contained operation reports back
struct Seen {
    /// indices / sequence numbers the callbacks were shown, in call order
    calls: Vec<u32>,
    /// sequence numbers read from the result, in index order
    result: Vec<u32>,
    /// Some(expected) when the whole operation completed and its outcome is comparable
    want_calls: Option<Vec<u32>>,
    want_result: Option<Vec<u32>>,
    what: &'static str,
    /// outcome mismatches that belong to one property's oracle: (class, detail)
    flags: Vec<(&'static str, String)>,
}

ops_group!(GWide);

impl<'a, E: Elem> GWide<'a, E> {
    pub fn op_wide(&mut self, cx: &mut Cx, a: [u32; N_ARGS]) {
        let which = a[0] % N_WIDE;
        let wi = (a[1] % 7) as usize;
        let n = WLENS[wi];
        let delta = a[2] % 3; // collect: 0 = exactly N, 1 = one short, 2 = one more
        let mut seen = Seen { calls: infra(Vec::new), result: infra(Vec::new), want_calls: None, want_result: None, what: "", flags: infra(Vec::new) };
        let r = with_wlen!(wi; N => lib(|| run_wide::<E, N>(which, delta, (a[3], a[4]), &mut seen)));
        cx.cov(&[OpKind::WideOp as u64, which as u64, n as u64, delta as u64, r.is_err() as u64]);
        cx.probe("operation on an array of larger-than-a-page elements");
        for (class, detail) in infra(|| std::mem::take(&mut seen.flags)) {
            if (class.starts_with("C07") && cx.checks.c07) || (class.starts_with("C15") && cx.checks.c15) || (class.starts_with("C06") && cx.checks.c06) {
                fail(class, detail);
            }
        }
        match r {
            Ok(()) => {
                if cx.checks.c08 {
                    if let Some(w) = &seen.want_calls {
                        if &seen.calls != w {
                            fail("C08-call-order", format!("{} on {n} larger-than-a-page elements: callbacks saw {:?}, expected {:?}", seen.what, seen.calls, w));
                        }
                    }
                    if let Some(w) = &seen.want_result {
                        if &seen.result != w {
                            fail("C08-result", format!("{} on {n} larger-than-a-page elements: result holds {:?}, expected {:?}", seen.what, seen.result, w));
                        }
                    }
                }
            }
            Err(p) => {
                if cx.checks.c08 {
                    if let Some(w) = &seen.want_calls {
                        if !(seen.calls.len() <= w.len() && seen.calls[..] == w[..seen.calls.len()]) {
                            fail("C08-call-order", format!("{} on {n} larger-than-a-page elements: callbacks saw {:?} before the panic, expected a prefix of {:?}", seen.what, seen.calls, w));
                        }
                    }
                }
                on_panic(cx, "operation on larger-than-a-page elements", p)
            }
        }
    }
}

fn mk<E: Elem>(seq: u32) -> Wide<E> {
    let _g = enter(Ctx::Work);
    Wide::wrap(E::make(), seq)
}

fn seqs<E: Elem>(s: &[Wide<E>], site: u32) -> Vec<u32> {
    let _g = enter(Ctx::Infra);
    s.iter().map(|w| w.look(site).1).collect()
}

fn iota(n: usize, base: u32) -> Vec<u32> {
    let _g = enter(Ctx::Infra);
    (0..n as u32).map(|i| base + i).collect()
}

/// runs under the library context; every closure is a seam
fn run_wide<E: Elem, N: ArrayLength>(which: u32, delta: u32, sched: (u32, u32), seen: &mut Seen) {
    let n = N::USIZE;
    let gen = |seen: &mut Seen| -> GenericArray<Wide<E>, N> {
        GenericArray::<Wide<E>, N>::generate(|i| {
            let _g = enter(Ctx::Work);
            ledger::tick(Seam::Closure);
            infra(|| seen.calls.push(i as u32));
            mk::<E>(i as u32)
        })
    };
    match which {
        // generate (owned form), then by-value iteration from both ends and abandonment
        0 => {
            seen.what = "generate";
            seen.want_calls = Some(iota(n, 0));
            let a = gen(seen);
            seen.result = seqs(a.as_slice(), 960);
            seen.want_result = Some(iota(n, 0));
            let mut it = a.into_iter();
            if let Some(x) = it.next() { x.look(961); }
            if let Some(x) = it.next_back() { x.look(961); }
            if let Some(x) = it.nth(1) { x.look(961); }
            let _ = seqs(it.as_slice(), 962);
        }
        // generate through the reference form of the sequence type, then Clone
        1 => {
            seen.what = "generate via &GenericArray, clone";
            seen.want_calls = Some(iota(n, 0));
            let a = <&GenericArray<Wide<E>, N> as GenericSequence<Wide<E>>>::generate(|i| {
                let _g = enter(Ctx::Work);
                ledger::tick(Seam::Closure);
                infra(|| seen.calls.push(i as u32));
                mk::<E>(i as u32)
            });
            let b = a.clone();
            seen.result = seqs(b.as_slice(), 960);
            seen.want_result = Some(iota(n, 0));
            let _ = seqs(a.as_slice(), 960);
        }
        // map (owned), then left fold
        2 => {
            seen.what = "map, fold";
            let a = { let mut s0 = Seen { calls: infra(Vec::new), result: infra(Vec::new), want_calls: None, want_result: None, what: "", flags: infra(Vec::new) }; gen(&mut s0) };
            let mut want = iota(n, 0);
            infra(|| want.extend(iota(n, 100)));
            seen.want_calls = Some(want);
            let b = a.map(|w| {
                let _g = enter(Ctx::Work);
                ledger::tick(Seam::Closure);
                let (_, s) = w.look(963);
                infra(|| seen.calls.push(s));
                drop(w);
                mk::<E>(100 + s)
            });
            seen.result = seqs(b.as_slice(), 960);
            seen.want_result = Some(iota(n, 100));
            let total = b.fold(0u32, |acc, w| {
                let _g = enter(Ctx::Work);
                ledger::tick(Seam::Closure);
                let (_, s) = w.look(963);
                infra(|| seen.calls.push(s));
                acc + 1
            });
            if total as usize != n {
                fail("C08-call-order", format!("fold over {n} larger-than-a-page elements made {total} calls"));
            }
        }
        // zip, owned with owned and owned with reference
        3 => {
            seen.what = "zip";
            let mut s0 = Seen { calls: infra(Vec::new), result: infra(Vec::new), want_calls: None, want_result: None, what: "", flags: infra(Vec::new) };
            let a = gen(&mut s0);
            let b = gen(&mut s0);
            let c = gen(&mut s0);
            let mut want = iota(n, 0);
            infra(|| want.extend(iota(n, 200)));
            seen.want_calls = Some(want);
            let z = a.zip(b, |x, y| {
                let _g = enter(Ctx::Work);
                ledger::tick(Seam::Closure);
                let (sx, sy) = (x.look(963).1, y.look(963).1);
                infra(|| seen.calls.push(if sx == sy { sx } else { 0xBAD }));
                drop(y);
                x
            });
            let z2 = z.zip(&c, |x, y| {
                let _g = enter(Ctx::Work);
                ledger::tick(Seam::Closure);
                let (sx, sy) = (x.look(963).1, y.look(963).1);
                infra(|| seen.calls.push(if sx == sy { 200 + sx } else { 0xBAD }));
                drop(x);
                mk::<E>(200 + sy)
            });
            seen.result = seqs(z2.as_slice(), 960);
            seen.want_result = Some(iota(n, 200));
            let _ = seqs(c.as_slice(), 960);
        }
        // collecting from a source with N, N - 1 or N + 1 items (from_iter panics on a mismatch)
        4 => {
            seen.what = "from_iter";
            let count = match delta { 0 => n, 1 => n.saturating_sub(1), _ => n + 1 };
            let mut left = count;
            let mut next = 0u32;
            let src = core::iter::from_fn(|| {
                let _g = enter(Ctx::Work);
                ledger::tick(Seam::SrcNext);
                if left == 0 { return None; }
                left -= 1;
                next += 1;
                Some(mk::<E>(next - 1))
            });
            match GenericArray::<Wide<E>, N>::try_from_iter(src) {
                Ok(a) => {
                    if count != n {
                        infra(|| seen.flags.push(("C07-wrong-length-accepted", format!("try_from_iter::<{n}> of larger-than-a-page elements returned an array for {count} items"))));
                    }
                    seen.result = seqs(a.as_slice(), 960);
                    seen.want_result = Some(iota(n, 0));
                }
                Err(_) => {
                    if count == n {
                        infra(|| seen.flags.push(("C07-right-length-rejected", format!("try_from_iter::<{n}> of larger-than-a-page elements rejected exactly {n} items"))));
                    }
                }
            }
        }
        // boxed constructors and the heap conversions
        5 => {
            seen.what = "boxed generate, boxed map";
            seen.want_calls = Some(iota(n, 0));
            let b = <Box<GenericArray<Wide<E>, N>> as GenericSequence<Wide<E>>>::generate(|i| {
                let _g = enter(Ctx::Work);
                ledger::tick(Seam::Closure);
                infra(|| seen.calls.push(i as u32));
                mk::<E>(i as u32)
            });
            let mut v = b.into_vec();
            let _ = seqs(&v, 960);
            if delta != 0 {
                let _g = enter(Ctx::Work);
                if delta == 1 { drop(v.pop()); } else { v.push(mk::<E>(n as u32)); }
                let l = v.len();
                if l != n {
                    drop(_g);
                    let ok = if delta == 2 { GenericArray::<Wide<E>, N>::try_from_boxed_slice(v.into_boxed_slice()).is_ok() } else { GenericArray::<Wide<E>, N>::try_from_vec(v).is_ok() };
                    if ok {
                        infra(|| seen.flags.push(("C15-wrong-length-accepted", format!("try_from_vec / try_from_boxed_slice::<{n}> accepted {l} larger-than-a-page elements"))));
                    }
                    return;
                }
            }
            match GenericArray::<Wide<E>, N>::try_from_vec(v) {
                Ok(b2) => {
                    seen.result = seqs(b2.as_slice(), 960);
                    seen.want_result = Some(iota(n, 0));
                    let s: Box<[Wide<E>]> = b2.into_boxed_slice();
                    let _ = seqs(&s, 960);
                }
                Err(_) => infra(|| seen.flags.push(("C15-right-length-rejected", format!("try_from_vec::<{n}> rejected a Vec of {n} larger-than-a-page elements")))),
            }
        }
        // Default, default_boxed, collect into a Box
        6 => {
            seen.what = "default, default_boxed, Box from_iter";
            let a = GenericArray::<Wide<E>, N>::default();
            let _ = seqs(a.as_slice(), 960);
            let b = GenericArray::<Wide<E>, N>::default_boxed();
            let _ = seqs(b.as_slice(), 960);
            let c: Box<GenericArray<Wide<E>, N>> = a.into_iter().collect();
            let _ = seqs(c.as_slice(), 960);
        }
        // a seeded schedule of iterator calls on the by-value iterator, against a queue model
        8 => {
            seen.what = "by-value iterator schedule";
            seen.want_calls = Some(iota(n, 0));
            let a = gen(seen);
            let mut it = a.into_iter();
            let mut model: std::collections::VecDeque<u32> = infra(|| (0..n as u32).collect());
            let mut x = (sched.0 as u64) << 20 | 0x9E37;
            let steps = 1 + sched.1 % 12;
            let mut bad = |what: &str, got: String, want: String| {
                infra(|| seen.flags.push(("C06-return-value", format!("iterator over {n} larger-than-a-page elements: {what} gave {got}, the queue model {want}"))));
            };
            for _ in 0..steps {
                x = x.wrapping_mul(6364136223846793005).wrapping_add(1442695040888963407);
                let op = (x >> 33) % 11;
                let k = ((x >> 45) % (n as u64 + 3)) as usize;
                match op {
                    0 | 1 => {
                        let got = if op == 0 { it.next() } else { it.next_back() }.map(|w| w.look(964).1);
                        let want = infra(|| if op == 0 { model.pop_front() } else { model.pop_back() });
                        if got != want { bad(if op == 0 { "next" } else { "next_back" }, format!("{got:?}"), format!("{want:?}")); }
                    }
                    2 | 3 => {
                        let got = if op == 2 { it.nth(k) } else { it.nth_back(k) }.map(|w| w.look(964).1);
                        let want = infra(|| {
                            if k >= model.len() { model.clear(); None }
                            else if op == 2 { model.drain(..k); model.pop_front() }
                            else { let l = model.len(); model.truncate(l - k); model.pop_back() }
                        });
                        if got != want { bad(if op == 2 { "nth" } else { "nth_back" }, format!("{got:?} for n = {k}"), format!("{want:?}")); }
                    }
                    4 => {
                        let (l, h) = (it.len(), it.size_hint());
                        if l != model.len() || h != (model.len(), Some(model.len())) { bad("len / size_hint", format!("{l} / {h:?}"), format!("{}", model.len())); }
                    }
                    5 => {
                        let got = seqs(it.as_slice(), 965);
                        let want: Vec<u32> = infra(|| model.iter().copied().collect());
                        if got != want { bad("as_slice", format!("{got:?}"), format!("{want:?}")); }
                    }
                    6 => {
                        let c = it.clone();
                        let got: Vec<u32> = { let v = infra(Vec::new); c.fold(v, |mut v, w| { let s = w.look(964).1; infra(|| v.push(s)); v }) };
                        let want: Vec<u32> = infra(|| model.iter().copied().collect());
                        if got != want { bad("clone + fold", format!("{got:?}"), format!("{want:?}")); }
                    }
                    7 => {
                        let c = it.clone();
                        let got: Vec<u32> = { let v = infra(Vec::new); c.rfold(v, |mut v, w| { let s = w.look(964).1; infra(|| v.push(s)); v }) };
                        let want: Vec<u32> = infra(|| model.iter().rev().copied().collect());
                        if got != want { bad("clone + rfold", format!("{got:?}"), format!("{want:?}")); }
                    }
                    8 => {
                        let got = it.clone().count();
                        if got != model.len() { bad("clone + count", format!("{got}"), format!("{}", model.len())); }
                    }
                    9 => {
                        let got = it.clone().last().map(|w| w.look(964).1);
                        let want = infra(|| model.back().copied());
                        if got != want { bad("clone + last", format!("{got:?}"), format!("{want:?}")); }
                    }
                    _ => {
                        // write through the mutable view: swap the two ends of what is left
                        let s = it.as_mut_slice();
                        let l = s.len();
                        if l >= 2 { s.swap(0, l - 1); infra(|| model.swap(0, l - 1)); }
                    }
                }
            }
            // abandoned wherever the schedule left it
            let _ = seqs(it.as_slice(), 965);
        }
        // length-changing sequence operations on larger-than-a-page elements (a fixed chain 3 -> 2 -> 1 -> 2 -> 3 -> 1+2 -> 3 -> 2 -> 1)
        9 => {
            seen.what = "swap_remove / remove / append / prepend / split / concat / pop";
            let a: GenericArray<Wide<E>, U3> = GenericArray::generate(|i| {
                let _g = enter(Ctx::Work);
                ledger::tick(Seam::Closure);
                mk::<E>(i as u32)
            });
            let k = (sched.0 % 3) as usize;
            let (x, rest) = if sched.1 % 2 == 0 { a.swap_remove(k) } else { a.remove(k) };
            x.look(966);
            let _ = seqs(rest.as_slice(), 966);
            let (y, rest1) = rest.remove(0);
            y.look(966);
            let b: GenericArray<Wide<E>, U2> = rest1.append(x);
            let c: GenericArray<Wide<E>, U3> = b.prepend(y);
            let _ = seqs(c.as_slice(), 966);
            let (p, q): (GenericArray<Wide<E>, U1>, GenericArray<Wide<E>, U2>) = Split::split(c);
            let _ = (seqs(p.as_slice(), 966), seqs(q.as_slice(), 966));
            let r: GenericArray<Wide<E>, U3> = Concat::concat(p, q);
            let (s, last) = r.pop_back();
            last.look(966);
            let (first, t) = s.pop_front();
            first.look(966);
            let _ = seqs(t.as_slice(), 966);
        }
        // map / zip to the unit type (zero-sized, no drop glue output) from elements of the run's own kind, owned and boxed
        10 => {
            seen.what = "map / zip to ()";
            let mut made: Vec<u32> = infra(Vec::new);
            let mut gen_e = |made: &mut Vec<u32>| -> GenericArray<E, N> {
                GenericArray::<E, N>::generate(|_| {
                    let _g = enter(Ctx::Work);
                    ledger::tick(Seam::Closure);
                    let e = E::make();
                    let id = e.observe(967);
                    infra(|| made.push(id));
                    e
                })
            };
            let a = gen_e(&mut made);
            let b = Box::new(gen_e(&mut made));
            let c = gen_e(&mut made);
            let d = gen_e(&mut made);
            let want: Vec<u32> = infra(|| made[..3 * n].to_vec());
            seen.want_calls = Some(want);
            let u: GenericArray<(), N> = a.map(|e| {
                let _g = enter(Ctx::Work);
                ledger::tick(Seam::Closure);
                let id = e.observe(968);
                infra(|| seen.calls.push(id));
                drop(e);
            });
            let ub: Box<GenericArray<(), N>> = b.map(|e| {
                let _g = enter(Ctx::Work);
                ledger::tick(Seam::Closure);
                let id = e.observe(968);
                infra(|| seen.calls.push(id));
                drop(e);
            });
            let uz: GenericArray<(), N> = c.zip(d, |x, y| {
                let _g = enter(Ctx::Work);
                ledger::tick(Seam::Closure);
                let id = x.observe(968);
                y.observe(968);
                infra(|| seen.calls.push(id));
                drop(y);
                drop(x);
            });
            if u.len() != n || ub.len() != n || uz.len() != n {
                fail("C08-result", format!("map / zip to () over {n} elements returned lengths {} / {} / {}", u.len(), ub.len(), uz.len()));
            }
        }
        // array -> Vec -> array, array -> Box<[T]> -> boxed array
        _ => {
            seen.what = "Vec::from, TryFrom<Vec>";
            let mut s0 = Seen { calls: infra(Vec::new), result: infra(Vec::new), want_calls: None, want_result: None, what: "", flags: infra(Vec::new) };
            let a = gen(&mut s0);
            let mut v: Vec<Wide<E>> = a.into();
            let _ = seqs(&v, 960);
            // a source one shorter / one longer must be rejected, with everything it held released
            if delta != 0 {
                let _g = enter(Ctx::Work);
                if delta == 1 { drop(v.pop()); } else { v.push(mk::<E>(n as u32)); }
                let l = v.len();
                if l != n {
                    drop(_g);
                    let bs = delta == 2;
                    let ok = if bs { GenericArray::<Wide<E>, N>::try_from(v.into_boxed_slice()).is_ok() } else { GenericArray::<Wide<E>, N>::try_from(v).is_ok() };
                    if ok {
                        infra(|| seen.flags.push(("C15-wrong-length-accepted", format!("TryFrom<Vec / Box<[T]>>::<{n}> accepted {l} larger-than-a-page elements"))));
                    }
                    return;
                }
            }
            match GenericArray::<Wide<E>, N>::try_from(v) {
                Ok(a2) => {
                    seen.result = seqs(a2.as_slice(), 960);
                    seen.want_result = Some(iota(n, 0));
                    let bs: Box<[Wide<E>]> = a2.into();
                    match GenericArray::<Wide<E>, N>::try_from_boxed_slice(bs) {
                        Ok(b) => { let _ = seqs(b.as_slice(), 960); }
                        Err(_) => infra(|| seen.flags.push(("C15-right-length-rejected", format!("try_from_boxed_slice::<{n}> rejected {n} larger-than-a-page elements")))),
                    }
                }
                Err(_) => infra(|| seen.flags.push(("C15-right-length-rejected", format!("TryFrom<Vec>::<{n}> rejected a Vec of {n} larger-than-a-page elements")))),
            }
        }
    }
}
