//! Private PRNG: xoshiro256** seeded through splitmix64. One integer decides a run.

#[derive(Clone)]
pub struct Rng {
    s: [u64; 4],
}

#[inline]
pub fn splitmix(x: &mut u64) -> u64 {
    *x = x.wrapping_add(0x9E37_79B9_7F4A_7C15);
    let mut z = *x;
    z = (z ^ (z >> 30)).wrapping_mul(0xBF58_476D_1CE4_E5B9);
    z = (z ^ (z >> 27)).wrapping_mul(0x94D0_49BB_1331_11EB);
    z ^ (z >> 31)
}

/// Seed of run `i` of property `prop` under batch base `base`.
pub fn run_seed(base: u64, prop: u64, i: u64) -> u64 {
    let mut x = base ^ prop.wrapping_mul(0xD6E8_FEB8_6659_FD93);
    let a = splitmix(&mut x);
    let mut y = a ^ i.wrapping_mul(0xA076_1D64_78BD_642F);
    splitmix(&mut y)
}

impl Rng {
    pub fn new(seed: u64) -> Rng {
        let mut x = seed;
        let s = [
            splitmix(&mut x),
            splitmix(&mut x),
            splitmix(&mut x),
            splitmix(&mut x),
        ];
        Rng { s }
    }

    #[inline]
    pub fn next_u64(&mut self) -> u64 {
        let r = self.s[1].wrapping_mul(5).rotate_left(7).wrapping_mul(9);
        let t = self.s[1] << 17;
        self.s[2] ^= self.s[0];
        self.s[3] ^= self.s[1];
        self.s[1] ^= self.s[2];
        self.s[0] ^= self.s[3];
        self.s[2] ^= t;
        self.s[3] = self.s[3].rotate_left(45);
        r
    }

    /// Uniform in 0..n (n > 0). Modulo bias is irrelevant for the sizes used.
    #[inline]
    pub fn below(&mut self, n: u32) -> u32 {
        debug_assert!(n > 0);
        ((self.next_u64() >> 32) as u32) % n
    }

    #[inline]
    pub fn range(&mut self, lo: u32, hi_incl: u32) -> u32 {
        lo + self.below(hi_incl - lo + 1)
    }

    #[inline]
    pub fn chance(&mut self, num: u32, den: u32) -> bool {
        self.below(den) < num
    }

    #[inline]
    pub fn pick<T: Copy>(&mut self, xs: &[T]) -> T {
        xs[self.below(xs.len() as u32) as usize]
    }
}
