//! Dispatcher: routes an operation to its executor group. The executors live in the g_*.rs
//! modules, each behind its own wrapper type, so that the compiler places every group in its own
//! codegen unit (methods of one generic type would all land in the unit of that type's module).

use crate::elem::Elem;
use crate::g_bx::GBx;
use crate::g_collect::GCollect;
use crate::g_conv::GConv;
use crate::g_iter1::GIter1;
use crate::g_iter2::GIter2;
use crate::g_map::GMap;
use crate::g_misc::GMisc;
use crate::g_new::GNew;
use crate::g_seq::GSeq;
use crate::g_serde::GSerde;
use crate::g_wide::GWide;
use crate::g_zip::GZip;
use crate::ops::*;
use crate::world::*;

pub fn is_prefix(got: &[u32], want: &[u32]) -> bool {
    got.len() <= want.len() && got == &want[..got.len()]
}

#[inline]
pub fn pick_len(len: usize, a: u32) -> Option<usize> {
    if len == 0 {
        None
    } else if a >= 1000 {
        // "from the end": 1000 = the most recently created object of that kind
        Some(len - 1 - ((a - 1000) as usize % len))
    } else {
        Some(a as usize % len)
    }
}

impl<E: Elem> World<E> {
    /// Apply one operation. Never panics on its own; library panics are caught inside.
    pub fn apply(&mut self, cx: &mut Cx, op: &Op) {
        cx.op_panicked = false;
        let a = op.args;
        match op.kind {
            OpKind::Generate => GNew(self).op_generate(cx, a),
            OpKind::DefaultArr => GNew(self).op_default(cx, a),
            OpKind::CloneArr => GNew(self).op_clone(cx, a),
            OpKind::CloneFromArr => GNew(self).op_clone_from(cx, a),
            OpKind::NativeRoundtrip => GNew(self).op_native(cx, a),
            OpKind::TupleRoundtrip => GNew(self).op_tuple(cx, a),
            OpKind::Collect => GCollect(self).op_collect(cx, a),
            OpKind::IntoIter => GIter1(self).op_into_iter(cx, a),
            OpKind::ItNext | OpKind::ItNextBack => GIter1(self).op_it_next(cx, a, op.kind == OpKind::ItNextBack),
            OpKind::ItNth | OpKind::ItNthBack => GIter1(self).op_it_nth(cx, a, op.kind == OpKind::ItNthBack),
            OpKind::ItLen => GIter1(self).op_it_len(cx, a),
            OpKind::ItWrite => GIter1(self).op_it_write(cx, a),
            OpKind::ItClone => GIter2(self).op_it_clone(cx, a),
            OpKind::ItCloneFrom => GIter2(self).op_it_clone_from(cx, a),
            OpKind::ItFold | OpKind::ItRfold => GIter2(self).op_it_fold(cx, a, op.kind == OpKind::ItRfold),
            OpKind::ItCount => GIter2(self).op_it_count(cx, a),
            OpKind::ItLast => GIter2(self).op_it_last(cx, a),
            OpKind::ItDebug => GIter2(self).op_it_debug(cx, a),
            OpKind::ItCollect => GIter2(self).op_it_collect(cx, a),
            OpKind::Map => GMap(self).op_map(cx, a),
            OpKind::Fold => GMap(self).op_fold(cx, a),
            OpKind::Zip => GZip(self).op_zip(cx, a),
            OpKind::Append => GSeq(self).op_append(cx, a),
            OpKind::Pop => GSeq(self).op_pop(cx, a),
            OpKind::Split => GSeq(self).op_split(cx, a),
            OpKind::Concat => GSeq(self).op_concat(cx, a),
            OpKind::Remove => GSeq(self).op_remove(cx, a),
            OpKind::Flatten => GSeq(self).op_flatten(cx, a),
            OpKind::Unflatten => GSeq(self).op_unflatten(cx, a),
            OpKind::NestGen => GSeq(self).op_nest_gen(cx, a),
            OpKind::NestClone => GSeq(self).op_nest_clone(cx, a),
            OpKind::NestIntoIter => GSeq(self).op_nest_into_iter(cx, a),
            OpKind::BuilderRun => GMisc(self).op_builder(cx, a),
            OpKind::ConsumerRun => GMisc(self).op_consumer(cx, a),
            OpKind::DropObj => GMisc(self).op_drop(cx, a),
            OpKind::ReleaseLoose => GMisc(self).op_release(cx, a),
            OpKind::ArrToVec => GConv(self).op_arr_to_vec(cx, a),
            OpKind::ArrBox => GConv(self).op_arr_box(cx, a),
            OpKind::Unbox => GConv(self).op_unbox(cx, a),
            OpKind::VecMake => GConv(self).op_vec_make(cx, a),
            OpKind::VecToArr => GConv(self).op_vec_to_arr(cx, a),
            OpKind::VecToBx => GConv(self).op_vec_to_bx(cx, a),
            OpKind::BxToVec => GConv(self).op_bx_to_vec(cx, a),
            OpKind::BoxedGenerate => GConv(self).op_boxed_generate(cx, a),
            OpKind::DefaultBoxed => GConv(self).op_default_boxed(cx, a),
            OpKind::BxClone => GConv(self).op_bx_clone(cx, a),
            OpKind::BxIntoIter => GConv(self).op_bx_into_iter(cx, a),
            OpKind::VitNext => GConv(self).op_vit_next(cx, a),
            OpKind::BoxArrMacro => GConv(self).op_box_arr_macro(cx, a),
            OpKind::SerRecord => GSerde(self).op_ser_record(cx, a),
            OpKind::SerReal => GSerde(self).op_ser_real(cx, a),
            OpKind::DeScripted => GSerde(self).op_de_scripted(cx, a),
            OpKind::DeReal => GSerde(self).op_de_real(cx, a),
            OpKind::WideOp => GWide(self).op_wide(cx, a),
        }
    }
}
