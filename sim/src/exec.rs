//! Executors for the core operation alphabet (construction, iterator, functional,
//! sequence, internals, caller side). Heap and serde operations live in exec_heap.rs /
//! exec_serde.rs.

use crate::alloc::{enter, Ctx};
use crate::elem::Elem;
use crate::gen::*;
use crate::ledger::{self, Seam};
use crate::ops::*;
use crate::world::*;
use generic_array::functional::FunctionalSequence;
use generic_array::internals::{ArrayBuilder, ArrayConsumer, IntrusiveArrayBuilder};
use generic_array::sequence::*;
use generic_array::typenum::Unsigned;
use generic_array::GenericArray;
use std::collections::VecDeque;

fn infra<R>(f: impl FnOnce() -> R) -> R {
    let _g = enter(Ctx::Infra);
    f()
}

fn is_prefix(got: &[u32], want: &[u32]) -> bool {
    got.len() <= want.len() && got == &want[..got.len()]
}

impl<E: Elem> World<E> {
    /// Apply one operation. Never panics on its own; library panics are caught inside.
    pub fn apply(&mut self, cx: &mut Cx, op: &Op) {
        cx.op_panicked = false;
        let a = op.args;
        match op.kind {
            OpKind::Generate => self.op_generate(cx, a),
            OpKind::DefaultArr => self.op_default(cx, a),
            OpKind::CloneArr => self.op_clone(cx, a),
            OpKind::Collect => self.op_collect(cx, a),
            OpKind::NativeRoundtrip => self.op_native(cx, a),
            OpKind::TupleRoundtrip => self.op_tuple(cx, a),
            OpKind::IntoIter => self.op_into_iter(cx, a),
            OpKind::ItNext | OpKind::ItNextBack => self.op_it_next(cx, a, op.kind == OpKind::ItNextBack),
            OpKind::ItNth | OpKind::ItNthBack => self.op_it_nth(cx, a, op.kind == OpKind::ItNthBack),
            OpKind::ItLen => self.op_it_len(cx, a),
            OpKind::ItWrite => self.op_it_write(cx, a),
            OpKind::ItClone => self.op_it_clone(cx, a),
            OpKind::ItFold | OpKind::ItRfold => self.op_it_fold(cx, a, op.kind == OpKind::ItRfold),
            OpKind::ItCount => self.op_it_count(cx, a),
            OpKind::ItLast => self.op_it_last(cx, a),
            OpKind::ItDebug => self.op_it_debug(cx, a),
            OpKind::ItCollect => self.op_it_collect(cx, a),
            OpKind::ItCloneFrom => self.op_it_clone_from(cx, a),
            OpKind::CloneFromArr => self.op_clone_from(cx, a),
            OpKind::Map => self.op_map(cx, a),
            OpKind::Zip => self.op_zip(cx, a),
            OpKind::Fold => self.op_fold(cx, a),
            OpKind::Append => self.op_append(cx, a),
            OpKind::Pop => self.op_pop(cx, a),
            OpKind::Split => self.op_split(cx, a),
            OpKind::Concat => self.op_concat(cx, a),
            OpKind::Remove => self.op_remove(cx, a),
            OpKind::Flatten => self.op_flatten(cx, a),
            OpKind::Unflatten => self.op_unflatten(cx, a),
            OpKind::NestGen => self.op_nest_gen(cx, a),
            OpKind::NestClone => self.op_nest_clone(cx, a),
            OpKind::NestIntoIter => self.op_nest_into_iter(cx, a),
            OpKind::BuilderRun => self.op_builder(cx, a),
            OpKind::ConsumerRun => self.op_consumer(cx, a),
            OpKind::DropObj => self.op_drop(cx, a),
            OpKind::ReleaseLoose => self.op_release(cx, a),
            OpKind::ArrToVec
            | OpKind::ArrBox
            | OpKind::Unbox
            | OpKind::VecMake
            | OpKind::VecToArr
            | OpKind::VecToBx
            | OpKind::BxToVec
            | OpKind::BoxedGenerate
            | OpKind::DefaultBoxed
            | OpKind::BxClone
            | OpKind::BxIntoIter
            | OpKind::VitNext
            | OpKind::BoxArrMacro => self.apply_heap(cx, op),
            OpKind::SerRecord | OpKind::SerReal | OpKind::DeScripted | OpKind::DeReal => {
                self.apply_serde(cx, op)
            }
        }
    }

    fn noop(&mut self, cx: &mut Cx) {
        cx.ops_noop += 1;
    }

    // ---- construction ----------------------------------------------------

    fn op_generate(&mut self, cx: &mut Cx, a: [u32; N_ARGS]) {
        let li = lens_idx(a[0]);
        let form = a[1] % 3;
        let n = LENS[li];
        let mut cb = Cb::<E>::new(0);
        let mut idxs: Vec<usize> = infra(Vec::new);
        let r = with_len!(li; N => {
            let f = |i: usize| {
                let _g = enter(Ctx::Work);
                ledger::tick(Seam::Closure);
                infra(|| idxs.push(i));
                cb.calls += 1;
                let e = E::make();
                cb.out(e)
            };
            lib(|| match form {
                0 => Arr::from(<GenericArray<E, N> as GenericSequence<E>>::generate(f)),
                1 => Arr::from(<&GenericArray<E, N> as GenericSequence<E>>::generate(f)),
                _ => Arr::from(<&mut GenericArray<E, N> as GenericSequence<E>>::generate(f)),
            })
        });
        let want: Vec<usize> = infra(|| (0..n).collect());
        match r {
            Ok(arr) => {
                if cx.checks.c08 {
                    if idxs != want {
                        fail("C08-generate-calls", format!("generate::<{n}> called its function with {idxs:?}, expected 0..{n} in ascending order"));
                    }
                    let got = with_arr!(&arr; x, N => { let _ = N::USIZE; ids_of(x.as_slice(), 930) });
                    if E::HAS_ID && got != cb.outs {
                        fail("C08-generate-result", format!("generate::<{n}>: result holds {got:?} but call i returned {:?}", cb.outs));
                    }
                }
                cx.cov(&[OpKind::Generate as u64, n as u64, form as u64, 0]);
                self.put_arr(cx, arr);
            }
            Err(p) => {
                if cx.checks.c08 && !(idxs.len() <= n && idxs[..] == want[..idxs.len()]) {
                    fail("C08-generate-calls", format!("generate::<{n}> called its function with {idxs:?} before the panic, expected a prefix of 0..{n}"));
                }
                cx.cov(&[OpKind::Generate as u64, n as u64, form as u64, 1, idxs.len() as u64]);
                on_panic(cx, "generate", p);
            }
        }
    }

    fn op_default(&mut self, cx: &mut Cx, a: [u32; N_ARGS]) {
        let li = lens_idx(a[0]);
        let n = LENS[li];
        ledger::with(|s| s.clones.clear());
        let r = with_len!(li; N => lib(|| Arr::from(GenericArray::<E, N>::default())));
        let calls = ledger::seam_count(Seam::Default) as usize;
        match r {
            Ok(arr) => {
                if cx.checks.c08 && calls != n {
                    fail("C08-default-calls", format!("Default for length {n} called the element's default {calls} times"));
                }
                if cx.checks.c08 && E::HAS_ID {
                    // element i is the result of the i-th call
                    let made: Vec<u32> = ledger::with(|s| s.clones.iter().filter(|c| c.0 == u32::MAX).map(|c| c.1).collect());
                    let got = with_arr!(&arr; x, N => { let _ = N::USIZE; ids_of(x.as_slice(), 930) });
                    if got != made {
                        fail("C08-default-order", format!("Default for length {n}: calls produced {made:?} in that order, the array holds {got:?}"));
                    }
                }
                cx.cov(&[OpKind::DefaultArr as u64, n as u64, 0]);
                self.put_arr(cx, arr);
            }
            Err(p) => {
                cx.cov(&[OpKind::DefaultArr as u64, n as u64, 1, calls as u64]);
                on_panic(cx, "default", p)
            }
        }
    }

    fn op_clone(&mut self, cx: &mut Cx, a: [u32; N_ARGS]) {
        let Some(i) = pick_len(self.arrs.len(), a[0]) else { return self.noop(cx) };
        let src = &self.arrs[i];
        let n = src.len();
        let pre = with_arr!(src; x, N => { let _ = N::USIZE; ids_of(x.as_slice(), 931) });
        ledger::with(|s| s.clones.clear());
        let r = with_arr!(src; x, N => { let _ = N::USIZE; lib(|| Arr::from(x.clone())) });
        let clones = ledger::with(|s| s.clones.clone());
        let srcs: Vec<u32> = infra(|| clones.iter().map(|c| c.0).collect());
        let news: Vec<u32> = infra(|| clones.iter().map(|c| c.1).collect());
        match r {
            Ok(arr) => {
                if cx.checks.c08 && E::HAS_ID {
                    if srcs != pre {
                        fail("C08-clone-calls", format!("clone of {pre:?} cloned elements {srcs:?} (expected each index once, ascending)"));
                    }
                    let got = with_arr!(&arr; x, N => { let _ = N::USIZE; ids_of(x.as_slice(), 932) });
                    if got != news {
                        fail("C08-clone-result", format!("clone result holds {got:?} but the clones made were {news:?}"));
                    }
                } else if cx.checks.c08 && ledger::seam_count(Seam::Clone) as usize != n {
                    fail("C08-clone-calls", format!("clone of a length-{n} array called Clone {} times", ledger::seam_count(Seam::Clone)));
                }
                cx.cov(&[OpKind::CloneArr as u64, n as u64, 0]);
                self.put_arr(cx, arr);
            }
            Err(p) => {
                if cx.checks.c08 && E::HAS_ID && !is_prefix(&srcs, &pre) {
                    fail("C08-clone-calls", format!("clone of {pre:?} cloned elements {srcs:?} before the panic (expected a prefix)"));
                }
                cx.cov(&[OpKind::CloneArr as u64, n as u64, 1, srcs.len() as u64]);
                on_panic(cx, "clone", p)
            }
        }
    }

    fn op_native(&mut self, cx: &mut Cx, a: [u32; N_ARGS]) {
        let Some(i) = pick_len(self.arrs.len(), a[0]) else { return self.noop(cx) };
        let arr = self.arrs.remove(i);
        let n = arr.len();
        let r = with_arr_const!(arr; x, N, C => lib(move || {
            let native: [E; C] = x.into_array();
            let back: GenericArray<E, N> = GenericArray::from_array(native);
            Arr::from(back)
        }));
        match r {
            Ok(arr) => {
                cx.cov(&[OpKind::NativeRoundtrip as u64, n as u64]);
                self.put_arr(cx, arr)
            }
            Err(p) => on_panic(cx, "into_array/from_array", p),
        }
    }

    fn op_tuple(&mut self, cx: &mut Cx, a: [u32; N_ARGS]) {
        let Some(i) = pick_len(self.arrs.len(), a[0]) else { return self.noop(cx) };
        if !has_tuple(self.arrs[i].len()) {
            return self.noop(cx);
        }
        let arr = self.arrs.remove(i);
        let n = arr.len();
        let r = lib(move || tuple_roundtrip!(arr, E; o => o));
        match r {
            Ok(arr) => {
                cx.cov(&[OpKind::TupleRoundtrip as u64, n as u64]);
                self.put_arr(cx, arr)
            }
            Err(p) => on_panic(cx, "tuple conversion", p),
        }
    }

    // ---- by-value iterator -------------------------------------------------

    fn op_into_iter(&mut self, cx: &mut Cx, a: [u32; N_ARGS]) {
        let Some(i) = pick_len(self.arrs.len(), a[0]) else { return self.noop(cx) };
        let arr = self.arrs.remove(i);
        let n = arr.len();
        let ids = with_arr!(&arr; x, N => { let _ = N::USIZE; ids_of(x.as_slice(), 933) });
        let r = with_arr!(arr; x, N => { let _ = N::USIZE; lib(move || It::from(x.into_iter())) });
        match r {
            Ok(it) => {
                cx.cov(&[OpKind::IntoIter as u64, n as u64]);
                let model: VecDeque<u32> = infra(|| ids.into_iter().collect());
                self.put_it(cx, ItObj { it, model, front: 0 })
            }
            Err(p) => on_panic(cx, "into_iter", p),
        }
    }

    fn it_cov(&self, cx: &mut Cx, kind: OpKind, i: usize, arg: u64) {
        let io = &self.its[i];
        let n = io.it.len() as u64;
        let front = io.front as u64;
        let back = front + io.model.len() as u64;
        cx.cov(&[kind as u64, n, front, back, arg]);
        if front > 0 && back < n {
            cx.probe("iterator op on an iterator consumed from both ends");
        }
        if io.model.is_empty() {
            cx.probe("iterator op on an exhausted iterator");
        }
    }

    /// after a destructor panic inside an iterator method the queue model is re-synchronised
    /// from observation (ids read through as_slice; the walk verifies each is live)
    fn resync_it(&mut self, i: usize) {
        let io = &mut self.its[i];
        let ids = with_it!(&io.it; it, N => { let _ = N::USIZE; ids_of(it.as_slice(), 934) });
        infra(|| {
            io.model = ids.into_iter().collect();
        });
    }

    fn op_it_next(&mut self, cx: &mut Cx, a: [u32; N_ARGS], back: bool) {
        let Some(i) = pick_len(self.its.len(), a[0]) else { return self.noop(cx) };
        self.it_cov(cx, if back { OpKind::ItNextBack } else { OpKind::ItNext }, i, 0);
        let io = &mut self.its[i];
        let r = with_it!(&mut io.it; it, N => { let _ = N::USIZE; lib(|| if back { it.next_back() } else { it.next() }) });
        match r {
            Ok(got) => {
                let want = if back { io.model.pop_back() } else { io.model.pop_front() };
                if !back && want.is_some() {
                    io.front += 1;
                }
                let got_id = got.as_ref().map(|e| e.observe(935));
                if cx.checks.c06 {
                    let ok = if E::HAS_ID { got_id == want } else { got_id.is_some() == want.is_some() };
                    if !ok {
                        fail("C06-return-value", format!("{} returned {got_id:?}, a queue of the same elements returns {want:?}", if back { "next_back" } else { "next" }));
                    }
                }
                if let Some(e) = got {
                    self.hand_back(cx, e, a[1]);
                }
            }
            Err(p) => on_panic(cx, "next/next_back", p),
        }
    }

    fn op_it_nth(&mut self, cx: &mut Cx, a: [u32; N_ARGS], back: bool) {
        let Some(i) = pick_len(self.its.len(), a[0]) else { return self.noop(cx) };
        let len = self.its[i].model.len();
        // argument range 0..=len+2, plus (args >= 100) arguments at the top of the usize range
        let n = if a[1] >= 100 { usize::MAX - (a[1] as usize - 100) % 4 } else { (a[1] as usize) % (len + 3) };
        if a[1] >= 100 {
            cx.probe("nth/nth_back with an argument near usize::MAX");
        }
        self.it_cov(cx, if back { OpKind::ItNthBack } else { OpKind::ItNth }, i, if a[1] >= 100 { 99 } else { n as u64 });
        if n >= len {
            cx.probe("nth/nth_back with n >= len");
        }
        let io = &mut self.its[i];
        let r = with_it!(&mut io.it; it, N => { let _ = N::USIZE; lib(|| if back { it.nth_back(n) } else { it.nth(n) }) });
        match r {
            Ok(got) => {
                let skip = n.min(len);
                for _ in 0..skip {
                    if back {
                        io.model.pop_back();
                    } else {
                        io.model.pop_front();
                        io.front += 1;
                    }
                }
                let want = if back { io.model.pop_back() } else { io.model.pop_front() };
                if !back && want.is_some() {
                    io.front += 1;
                }
                let got_id = got.as_ref().map(|e| e.observe(936));
                if cx.checks.c06 {
                    let ok = if E::HAS_ID { got_id == want } else { got_id.is_some() == want.is_some() };
                    if !ok {
                        fail("C06-return-value", format!("{}({n}) with {len} remaining returned {got_id:?}, a queue returns {want:?}", if back { "nth_back" } else { "nth" }));
                    }
                }
                if let Some(e) = got {
                    self.hand_back(cx, e, a[2]);
                }
            }
            Err(p) => {
                on_panic(cx, "nth/nth_back", p);
                cx.probe("destructor panic inside nth/nth_back");
                self.resync_it(i);
            }
        }
    }

    fn op_it_len(&mut self, cx: &mut Cx, a: [u32; N_ARGS]) {
        let Some(i) = pick_len(self.its.len(), a[0]) else { return self.noop(cx) };
        self.it_cov(cx, OpKind::ItLen, i, 0);
        let io = &self.its[i];
        let r = with_it!(&io.it; it, N => { let _ = N::USIZE; lib(|| (ExactSizeIterator::len(it), it.size_hint())) });
        match r {
            Ok((len, hint)) => {
                let want = io.model.len();
                if cx.checks.c06 && (len != want || hint != (want, Some(want))) {
                    fail("C06-len", format!("len() = {len}, size_hint() = {hint:?} with {want} elements still to come"));
                }
            }
            Err(p) => on_panic(cx, "len/size_hint", p),
        }
    }

    fn op_it_write(&mut self, cx: &mut Cx, a: [u32; N_ARGS]) {
        let Some(i) = pick_len(self.its.len(), a[0]) else { return self.noop(cx) };
        self.it_cov(cx, OpKind::ItWrite, i, 0);
        let io = &mut self.its[i];
        let idx = a[1] as usize;
        let fresh = {
            let _g = enter(Ctx::Work);
            E::make()
        };
        let fresh_id = fresh.observe(937);
        let mut fresh = Some(fresh);
        let r = with_it!(&mut io.it; it, N => { let _ = N::USIZE; lib(|| {
            let s = it.as_mut_slice();
            if s.is_empty() { None } else { let k = idx % s.len(); Some((k, core::mem::replace(&mut s[k], fresh.take().unwrap()))) }
        }) });
        match r {
            Ok(Some((k, old))) => {
                let old_id = old.observe(938);
                if cx.checks.c06 && E::HAS_ID && io.model.get(k).copied() != Some(old_id) {
                    fail("C06-as-mut-slice", format!("as_mut_slice()[{k}] held {old_id}, the queue model has {:?}", io.model.get(k)));
                }
                if k < io.model.len() {
                    io.model[k] = fresh_id;
                }
                self.hand_back(cx, old, 0);
            }
            Ok(None) => {
                if cx.checks.c06 && !io.model.is_empty() {
                    fail("C06-as-mut-slice", format!("as_mut_slice() is empty with {} elements still to come", io.model.len()));
                }
                if let Some(f) = fresh.take() {
                    self.drop_value(cx, "drop unused element", f);
                }
            }
            Err(p) => {
                on_panic(cx, "as_mut_slice", p);
                if let Some(f) = fresh.take() {
                    self.drop_value(cx, "drop unused element", f);
                }
            }
        }
    }

    fn op_it_clone(&mut self, cx: &mut Cx, a: [u32; N_ARGS]) {
        let Some(i) = pick_len(self.its.len(), a[0]) else { return self.noop(cx) };
        self.it_cov(cx, OpKind::ItClone, i, 0);
        let io = &self.its[i];
        ledger::with(|s| s.clones.clear());
        let r = with_it!(&io.it; it, N => { let _ = N::USIZE; lib(|| It::from(it.clone())) });
        let clones = ledger::with(|s| s.clones.clone());
        let srcs: Vec<u32> = infra(|| clones.iter().map(|c| c.0).collect());
        let news: Vec<u32> = infra(|| clones.iter().map(|c| c.1).collect());
        let want: Vec<u32> = infra(|| io.model.iter().copied().collect());
        match r {
            Ok(it2) => {
                if cx.checks.c06 {
                    if E::HAS_ID && srcs != want {
                        fail("C06-clone", format!("clone of an iterator with remaining {want:?} cloned {srcs:?}"));
                    }
                    if !E::HAS_ID && ledger::seam_count(Seam::Clone) as usize != want.len() {
                        fail("C06-clone", format!("clone of an iterator with {} remaining made {} clones", want.len(), ledger::seam_count(Seam::Clone)));
                    }
                }
                let model: VecDeque<u32> = infra(|| if E::HAS_ID { news.into_iter().collect() } else { want.iter().map(|_| 0).collect() });
                // the clone's own remaining elements are compared with this model by the walk
                self.put_it(cx, ItObj { it: it2, model, front: 0 });
            }
            Err(p) => on_panic(cx, "iterator clone", p),
        }
    }

    fn op_it_fold(&mut self, cx: &mut Cx, a: [u32; N_ARGS], back: bool) {
        let Some(i) = pick_len(self.its.len(), a[0]) else { return self.noop(cx) };
        self.it_cov(cx, if back { OpKind::ItRfold } else { OpKind::ItFold }, i, 0);
        let io = self.its.remove(i);
        let mut want: Vec<u32> = infra(|| io.model.iter().copied().collect());
        if back {
            want.reverse();
        }
        let mut cb = Cb::<E>::new(a[1]);
        let init = Acc { token: 7, kept: infra(Vec::new) };
        let r = with_it!(io.it; it, N => { let _ = N::USIZE; lib(|| {
            if back { it.rfold(init, |acc, e| fold_cb(&mut cb, acc, e)) } else { it.fold(init, |acc, e| fold_cb(&mut cb, acc, e)) }
        }) });
        let seen: Vec<u32> = infra(|| cb.args.iter().map(|x| x.0).collect());
        match r {
            Ok(acc) => {
                if cx.checks.c06 {
                    let ok = if E::HAS_ID { seen == want } else { seen.len() == want.len() };
                    if !ok {
                        fail("C06-fold-order", format!("{} visited {seen:?}, a queue yields {want:?}", if back { "rfold" } else { "fold" }));
                    }
                }
                if cx.checks.c08 {
                    let exp = fold_expected(7, &seen);
                    if cb.args != exp {
                        fail("C08-fold-acc", format!("iterator fold did not thread the accumulator: calls {:?}, expected {:?}", cb.args, exp));
                    }
                }
                let Acc { kept, .. } = acc;
                self.put_loose_all(cx, kept);
            }
            Err(p) => {
                if cx.checks.c06 && E::HAS_ID && !is_prefix(&seen, &want) {
                    fail("C06-fold-order", format!("fold visited {seen:?} before the panic, a queue yields {want:?}"));
                }
                on_panic(cx, "iterator fold/rfold", p);
            }
        }
        let stash = core::mem::take(&mut cb.stash);
        self.put_loose_all(cx, stash);
    }

    fn op_it_count(&mut self, cx: &mut Cx, a: [u32; N_ARGS]) {
        let Some(i) = pick_len(self.its.len(), a[0]) else { return self.noop(cx) };
        self.it_cov(cx, OpKind::ItCount, i, 0);
        let io = self.its.remove(i);
        let want = io.model.len();
        let r = with_it!(io.it; it, N => { let _ = N::USIZE; lib(move || it.count()) });
        match r {
            Ok(c) => {
                if cx.checks.c06 && c != want {
                    fail("C06-return-value", format!("count() returned {c} with {want} elements still to come"));
                }
            }
            Err(p) => on_panic(cx, "count", p),
        }
    }

    fn op_it_last(&mut self, cx: &mut Cx, a: [u32; N_ARGS]) {
        let Some(i) = pick_len(self.its.len(), a[0]) else { return self.noop(cx) };
        self.it_cov(cx, OpKind::ItLast, i, 0);
        let io = self.its.remove(i);
        let want = io.model.back().copied();
        let r = with_it!(io.it; it, N => { let _ = N::USIZE; lib(move || it.last()) });
        match r {
            Ok(got) => {
                let got_id = got.as_ref().map(|e| e.observe(939));
                if cx.checks.c06 {
                    let ok = if E::HAS_ID { got_id == want } else { got_id.is_some() == want.is_some() };
                    if !ok {
                        fail("C06-return-value", format!("last() returned {got_id:?}, a queue returns {want:?}"));
                    }
                }
                if let Some(e) = got {
                    self.hand_back(cx, e, a[1]);
                }
            }
            Err(p) => on_panic(cx, "last", p),
        }
    }

    fn op_it_debug(&mut self, cx: &mut Cx, a: [u32; N_ARGS]) {
        let Some(i) = pick_len(self.its.len(), a[0]) else { return self.noop(cx) };
        self.it_cov(cx, OpKind::ItDebug, i, 0);
        let io = &self.its[i];
        let r = with_it!(&io.it; it, N => { let _ = N::USIZE; lib(|| { let _g = enter(Ctx::Infra); format!("{:?}", it) }) });
        match r {
            Ok(s) => {
                if cx.checks.c06 {
                    let list = infra(|| {
                        let parts: Vec<String> = io.model.iter().map(|id| E::debug_of(*id)).collect();
                        format!("[{}]", parts.join(", "))
                    });
                    let ok = infra(|| s.contains(&list) && s.matches('#').count() == io.model.len());
                    if !ok {
                        fail("C06-debug", format!("Debug printed {s:?}, the remaining elements are {list}"));
                    }
                }
            }
            Err(p) => on_panic(cx, "iterator Debug", p),
        }
    }

    fn op_it_collect(&mut self, cx: &mut Cx, a: [u32; N_ARGS]) {
        let Some(i) = pick_len(self.its.len(), a[0]) else { return self.noop(cx) };
        self.it_cov(cx, OpKind::ItCollect, i, 0);
        let io = self.its.remove(i);
        let rem = io.model.len();
        // mode 0: collect into the length that fits, if it is in the lane; otherwise a chosen length
        let li = match LENS.iter().position(|&l| l == rem) {
            Some(li) if a[1] % 4 != 3 => li,
            _ => lens_idx(a[2]),
        };
        let target = LENS[li];
        let want: Vec<u32> = infra(|| io.model.iter().copied().collect());
        let boxed = a[1] % 4 == 2;
        enum Out<E> {
            A(Arr<E>),
            B(Bx<E>),
        }
        let r = with_it!(io.it; it, N => { let _ = N::USIZE; with_len!(li; R => lib(move || {
            if boxed {
                GenericArray::<E, R>::try_boxed_from_iter(it).map(|b| Out::B(Bx::from(b)))
            } else {
                GenericArray::<E, R>::try_from_iter(it).map(|a| Out::A(Arr::from(a)))
            }
        })) });
        match r {
            Ok(Ok(out)) => {
                if target != rem {
                    fail("C07-wrong-length-accepted", format!("collecting {rem} remaining elements into length {target} returned Ok"));
                }
                let got = match &out {
                    Out::A(arr) => with_arr!(arr; x, N => { let _ = N::USIZE; ids_of(x.as_slice(), 940) }),
                    Out::B(bx) => with_bx!(bx; x, N => { let _ = N::USIZE; ids_of(x.as_slice(), 940) }),
                };
                if cx.checks.c06 && E::HAS_ID && got != want {
                    fail("C06-collect-order", format!("collecting the iterator gave {got:?}, a queue yields {want:?}"));
                }
                match out {
                    Out::A(arr) => self.put_arr(cx, arr),
                    Out::B(bx) => self.put_bx(cx, bx),
                }
            }
            Ok(Err(_)) => {
                if target == rem && (cx.checks.c06 || cx.checks.c07) {
                    fail("C07-right-length-rejected", format!("collecting {rem} remaining elements into length {target} returned LengthError"));
                }
                cx.probe("collect of a by-value iterator into the wrong length");
            }
            Err(p) => on_panic(cx, "collect from iterator", p),
        }
    }

    /// `dst.clone_from(&src)` on two by-value iterators of the same array type
    fn op_it_clone_from(&mut self, cx: &mut Cx, a: [u32; N_ARGS]) {
        let Some(i) = pick_len(self.its.len(), a[0]) else { return self.noop(cx) };
        let n = self.its[i].it.len();
        let partners: Vec<usize> = infra(|| (0..self.its.len()).filter(|&j| j != i && self.its[j].it.len() == n).collect());
        let Some(pj) = pick_len(partners.len(), a[1]) else { return self.noop(cx) };
        let j = partners[pj];
        self.it_cov(cx, OpKind::ItCloneFrom, i, self.its[j].model.len() as u64);
        // take the destination out so that both can be borrowed
        let mut dst = self.its.remove(i);
        let j = if j > i { j - 1 } else { j };
        let src = &self.its[j];
        ledger::with(|s| s.clones.clear());
        let r = match (&mut dst.it, &src.it) {
            (d, s0) => {
                macro_rules! arms {
                    ($($v:ident),*) => {
                        match (d, s0) {
                            $((It::$v(d), It::$v(s0)) => lib(|| d.clone_from(s0)),)*
                            _ => unreachable!(),
                        }
                    };
                }
                arms!(L0, L1, L2, L3, L4, L5, L6, L7, L8, L9, L10, L11, L12, L15, L16, L17, L31, L32, L33, L64, L100, L1024)
            }
        };
        let clones = ledger::with(|s| s.clones.clone());
        let news: Vec<u32> = infra(|| clones.iter().map(|c| c.1).collect());
        let want: Vec<u32> = infra(|| src.model.iter().copied().collect());
        match r {
            Ok(()) => {
                // the destination now yields clones of the source's remaining elements
                infra(|| {
                    dst.model = if E::HAS_ID { news.iter().copied().collect() } else { want.iter().map(|_| 0).collect() };
                    dst.front = 0;
                });
                if cx.checks.c06 && E::HAS_ID && news.len() != want.len() {
                    fail("C06-clone", format!("clone_from a source with remaining {want:?} made {} clones", news.len()));
                }
                self.put_it(cx, dst);
            }
            Err(p) => {
                on_panic(cx, "iterator clone_from", p);
                // whatever the destination holds now is re-read through as_slice
                infra(|| self.its.push(dst));
                let k = self.its.len() - 1;
                self.resync_it(k);
            }
        }
    }

    /// `dst.clone_from(&src)` on two arrays of the same length
    fn op_clone_from(&mut self, cx: &mut Cx, a: [u32; N_ARGS]) {
        let Some(i) = pick_len(self.arrs.len(), a[0]) else { return self.noop(cx) };
        let n = self.arrs[i].len();
        let partners: Vec<usize> = infra(|| (0..self.arrs.len()).filter(|&j| j != i && self.arrs[j].len() == n).collect());
        let Some(pj) = pick_len(partners.len(), a[1]) else { return self.noop(cx) };
        let j = partners[pj];
        let mut dst = self.arrs.remove(i);
        let j = if j > i { j - 1 } else { j };
        let src = &self.arrs[j];
        let pre = with_arr!(src; x, N => { let _ = N::USIZE; ids_of(x.as_slice(), 931) });
        ledger::with(|s| s.clones.clear());
        let r = with_arr_pair!((&mut dst, src); d, s0, N => { let _ = N::USIZE; lib(|| d.clone_from(s0)) }; _o => unreachable!());
        let clones = ledger::with(|s| s.clones.clone());
        let srcs: Vec<u32> = infra(|| clones.iter().map(|c| c.0).collect());
        let news: Vec<u32> = infra(|| clones.iter().map(|c| c.1).collect());
        cx.cov(&[OpKind::CloneFromArr as u64, n as u64, r.is_err() as u64]);
        match r {
            Ok(()) => {
                if cx.checks.c08 && E::HAS_ID {
                    let got = with_arr!(&dst; x, N => { let _ = N::USIZE; ids_of(x.as_slice(), 932) });
                    if srcs != pre || got != news {
                        fail("C08-clone-calls", format!("clone_from of {pre:?} cloned {srcs:?}; destination holds {got:?}, clones made {news:?}"));
                    }
                }
            }
            Err(p) => on_panic(cx, "clone_from", p),
        }
        self.put_arr(cx, dst);
    }

    // ---- functional --------------------------------------------------------

    pub fn check_cb_c08(&self, cx: &mut Cx, what: &str, cb: &Cb<E>, want_args: &[(u32, u32)], result: Option<Vec<u32>>) {
        if !cx.checks.c08 {
            return;
        }
        if E::HAS_ID {
            match &result {
                Some(got) => {
                    if cb.args != want_args {
                        fail("C08-call-order", format!("{what}: callback saw {:?}, expected {:?} (index order, once each)", cb.args, want_args));
                    }
                    if got != &cb.outs {
                        fail("C08-result", format!("{what}: result holds {got:?}, call i returned {:?}", cb.outs));
                    }
                }
                None => {
                    if !(cb.args.len() <= want_args.len() && cb.args[..] == want_args[..cb.args.len()]) {
                        fail("C08-call-order", format!("{what}: callback saw {:?} before the panic, expected a prefix of {:?}", cb.args, want_args));
                    }
                }
            }
        } else if result.is_some() && cb.args.len() != want_args.len() {
            fail("C08-call-order", format!("{what}: callback was called {} times for length {}", cb.args.len(), want_args.len()));
        }
    }

    /// map that changes the element type: tracked -> plain (form 4) and plain -> tracked (form 5)
    fn op_map_mixed(&mut self, cx: &mut Cx, a: [u32; N_ARGS], form: u32) {
        let Some(i) = pick_len(self.arrs.len(), a[0]) else { return self.noop(cx) };
        let mut cb = Cb::<E>::new(a[1]);
        let n = self.arrs[i].len();
        let li = self.arrs[i].len_idx();
        if form == 4 {
            let arr = self.arrs.remove(i);
            let pre = with_arr!(&arr; x, N => { let _ = N::USIZE; ids_of(x.as_slice(), 941) });
            let r = with_arr!(arr; x, N => { let _ = N::USIZE; lib(|| Arr::<Plain>::from(x.map(|e: E| {
                let _g = enter(Ctx::Work);
                ledger::tick(Seam::Closure);
                let id = e.observe(910);
                cb.record(id, 0);
                // behaviour: drop inside the callback or keep
                if (cb.beh + cb.calls) % 2 == 0 { drop(e) } else { cb.keep(e) }
                cb.calls += 1;
                Plain(id)
            }))) });
            cx.cov(&[OpKind::Map as u64, n as u64, 4, r.is_err() as u64, cb.calls as u64 * r.is_err() as u64]);
            let seen: Vec<u32> = infra(|| cb.args.iter().map(|x| x.0).collect());
            match r {
                Ok(out) => {
                    if cx.checks.c08 && E::HAS_ID {
                        let got: Vec<u32> = with_arr!(&out; x, N => { let _ = N::USIZE; x.iter().map(|p| p.0).collect() });
                        if seen != pre || got != pre {
                            fail("C08-call-order", format!("map to another type: callback saw {seen:?}, result holds {got:?}, expected {pre:?}"));
                        }
                    }
                }
                Err(p) => {
                    if cx.checks.c08 && E::HAS_ID && !(seen.len() <= pre.len() && seen[..] == pre[..seen.len()]) {
                        fail("C08-call-order", format!("map to another type: callback saw {seen:?} before the panic, expected a prefix of {pre:?}"));
                    }
                    on_panic(cx, "map (to plain)", p)
                }
            }
        } else {
            let r = with_len!(li; N => lib(|| {
                let src = GenericArray::<Plain, N>::generate(|i| Plain(i as u32));
                Arr::<E>::from(src.map(|p: Plain| {
                    let _g = enter(Ctx::Work);
                    ledger::tick(Seam::Closure);
                    cb.record(PLAIN_TAG | p.0, 0);
                    cb.calls += 1;
                    let e = E::make();
                    cb.out(e)
                }))
            }));
            cx.cov(&[OpKind::Map as u64, n as u64, 5, r.is_err() as u64, cb.calls as u64 * r.is_err() as u64]);
            let want: Vec<(u32, u32)> = infra(|| (0..n as u32).map(|k| (PLAIN_TAG | k, 0)).collect());
            match r {
                Ok(arr) => {
                    let got = with_arr!(&arr; x, N => { let _ = N::USIZE; ids_of(x.as_slice(), 942) });
                    self.check_cb_c08(cx, "map (from plain)", &cb, &want, Some(got));
                    self.put_arr(cx, arr);
                }
                Err(p) => {
                    self.check_cb_c08(cx, "map (from plain)", &cb, &want, None);
                    on_panic(cx, "map (from plain)", p);
                }
            }
        }
        let stash = core::mem::take(&mut cb.stash);
        self.put_loose_all(cx, stash);
    }

    fn op_map(&mut self, cx: &mut Cx, a: [u32; N_ARGS]) {
        let form = a[2] % 7;
        if form == 6 {
            return self.op_bx_map_bytes(cx, a);
        }
        if form >= 4 {
            return self.op_map_mixed(cx, a, form);
        }
        if form == 3 {
            return self.op_bx_map(cx, a);
        }
        let Some(i) = pick_len(self.arrs.len(), a[0]) else { return self.noop(cx) };
        let mut cb = Cb::<E>::new(a[1]);
        let n = self.arrs[i].len();
        let pre = with_arr!(&self.arrs[i]; x, N => { let _ = N::USIZE; ids_of(x.as_slice(), 941) });
        let want: Vec<(u32, u32)> = infra(|| pre.iter().map(|&id| (id, 0)).collect());
        let r = match form {
            0 => {
                let arr = self.arrs.remove(i);
                with_arr!(arr; x, N => { let _ = N::USIZE; lib(|| Arr::from(x.map(|e| map_cb(&mut cb, e)))) })
            }
            1 => {
                with_arr!(&self.arrs[i]; x, N => { let _ = N::USIZE; lib(|| Arr::from(FunctionalSequence::map(x, |e: &E| map_cb(&mut cb, e)))) })
            }
            _ => {
                with_arr!(&mut self.arrs[i]; x, N => { let _ = N::USIZE; lib(|| Arr::from(FunctionalSequence::map(x, |e: &mut E| map_cb(&mut cb, e)))) })
            }
        };
        cx.cov(&[OpKind::Map as u64, n as u64, form as u64, r.is_err() as u64, cb.calls as u64 * r.is_err() as u64]);
        match r {
            Ok(arr) => {
                let got = with_arr!(&arr; x, N => { let _ = N::USIZE; ids_of(x.as_slice(), 942) });
                self.check_cb_c08(cx, "map", &cb, &want, Some(got));
                self.put_arr(cx, arr);
            }
            Err(p) => {
                self.check_cb_c08(cx, "map", &cb, &want, None);
                on_panic(cx, "map", p);
            }
        }
        let stash = core::mem::take(&mut cb.stash);
        self.put_loose_all(cx, stash);
    }

    fn op_fold(&mut self, cx: &mut Cx, a: [u32; N_ARGS]) {
        let form = a[2] % 4;
        if form == 3 {
            return self.op_bx_fold(cx, a);
        }
        let Some(i) = pick_len(self.arrs.len(), a[0]) else { return self.noop(cx) };
        let mut cb = Cb::<E>::new(a[1]);
        let n = self.arrs[i].len();
        let pre = with_arr!(&self.arrs[i]; x, N => { let _ = N::USIZE; ids_of(x.as_slice(), 943) });
        let want = fold_expected(11, &pre);
        let init = Acc { token: 11, kept: infra(Vec::new) };
        let r = match form {
            0 => {
                let arr = self.arrs.remove(i);
                with_arr!(arr; x, N => { let _ = N::USIZE; lib(|| x.fold(init, |acc, e| fold_cb(&mut cb, acc, e))) })
            }
            1 => {
                with_arr!(&self.arrs[i]; x, N => { let _ = N::USIZE; lib(|| FunctionalSequence::fold(x, init, |acc, e: &E| fold_cb(&mut cb, acc, e))) })
            }
            _ => {
                with_arr!(&mut self.arrs[i]; x, N => { let _ = N::USIZE; lib(|| FunctionalSequence::fold(x, init, |acc, e: &mut E| fold_cb(&mut cb, acc, e))) })
            }
        };
        cx.cov(&[OpKind::Fold as u64, n as u64, form as u64, r.is_err() as u64, cb.calls as u64 * r.is_err() as u64]);
        match r {
            Ok(acc) => {
                if cx.checks.c08 {
                    if E::HAS_ID {
                        if cb.args != want {
                            fail("C08-call-order", format!("fold: callback saw (element, accumulator) {:?}, expected {:?}", cb.args, want));
                        }
                        let last = cb.outs.last().copied().unwrap_or(11);
                        if acc.token as u32 != last {
                            fail("C08-result", format!("fold returned an accumulator that is not the one returned by the last call"));
                        }
                    } else if cb.args.len() != n {
                        fail("C08-call-order", format!("fold: callback was called {} times for length {n}", cb.args.len()));
                    }
                }
                let Acc { kept, .. } = acc;
                self.put_loose_all(cx, kept);
            }
            Err(p) => {
                if cx.checks.c08 && E::HAS_ID && !(cb.args.len() <= want.len() && cb.args[..] == want[..cb.args.len()]) {
                    fail("C08-call-order", format!("fold: callback saw {:?} before the panic, expected a prefix of {:?}", cb.args, want));
                }
                on_panic(cx, "fold", p);
            }
        }
        let stash = core::mem::take(&mut cb.stash);
        self.put_loose_all(cx, stash);
    }

    /// make sure two distinct arrays of the same length exist; returns them removed from the pool
    fn take_pair(&mut self, cx: &mut Cx, a: u32, b: u32) -> Option<(Arr<E>, Arr<E>)> {
        let i = pick_len(self.arrs.len(), a)?;
        let n = self.arrs[i].len();
        let partners: Vec<usize> = infra(|| (0..self.arrs.len()).filter(|&j| j != i && self.arrs[j].len() == n).collect());
        if let Some(pj) = pick_len(partners.len(), b) {
            let j = partners[pj];
            let (hi, lo) = if i > j { (i, j) } else { (j, i) };
            let x_hi = self.arrs.remove(hi);
            let x_lo = self.arrs.remove(lo);
            if i > j {
                Some((x_hi, x_lo))
            } else {
                Some((x_lo, x_hi))
            }
        } else {
            // no partner of that length: the caller makes one (no seam is involved)
            let li = self.arrs[i].len_idx();
            let made = with_len!(li; N => lib(|| { Arr::from(GenericArray::<E, N>::generate(|_| { let _g = enter(Ctx::Work); E::make() })) }));
            match made {
                Ok(p) => {
                    let x = self.arrs.remove(i);
                    Some((x, p))
                }
                Err(p) => {
                    on_panic(cx, "generate (partner)", p);
                    None
                }
            }
        }
    }

    /// zip of a tracked array with an array of plain (no-Drop) elements of another type, on either
    /// side, in all nine receiver x argument forms
    fn op_zip_mixed(&mut self, cx: &mut Cx, a: [u32; N_ARGS]) {
        let form = a[3] % 9;
        let plain_left = a[4] % 3 == 1;
        let Some(i) = pick_len(self.arrs.len(), a[0]) else { return self.noop(cx) };
        let mut xe = self.arrs.remove(i);
        let n = xe.len();
        let li = xe.len_idx();
        let made = with_len!(li; N => lib(|| Arr::<Plain>::from(GenericArray::<Plain, N>::generate(|i| Plain(i as u32)))));
        let mut xp = match made {
            Ok(p) => p,
            Err(p) => {
                self.put_arr(cx, xe);
                return on_panic(cx, "generate (plain partner)", p);
            }
        };
        let (lf, rf) = (form / 3, form % 3);
        let mut cb = Cb::<E>::new(a[2]);
        let ie = with_arr!(&xe; x, N => { let _ = N::USIZE; ids_of(x.as_slice(), 944) });
        let want: Vec<(u32, u32)> = infra(|| ie.iter().enumerate().map(|(k, &id)| if plain_left { (PLAIN_TAG | k as u32, id) } else { (id, PLAIN_TAG | k as u32) }).collect());
        let (ef, pf) = if plain_left { (rf, lf) } else { (lf, rf) };
        let r = {
            macro_rules! go {
                ($l:expr, $r:expr) => {
                    lib(|| Arr::<E>::from(FunctionalSequence::zip($l, $r, |l, r| zip_cb(&mut cb, l, r))))
                };
            }
            macro_rules! pair {
                ($e:expr, $p:expr) => {
                    if plain_left {
                        with_arr_pair!(($p, $e); l, r, N => { let _ = N::USIZE; go!(l, r) }; _o => unreachable!())
                    } else {
                        with_arr_pair!(($e, $p); l, r, N => { let _ = N::USIZE; go!(l, r) }; _o => unreachable!())
                    }
                };
            }
            match (ef, pf) {
                (0, 0) => { let (e, p) = (core::mem::replace(&mut xe, Arr::from(GenericArray::<E, generic_array::typenum::U0>::generate(|_| unreachable!()))), core::mem::replace(&mut xp, Arr::from(GenericArray::<Plain, generic_array::typenum::U0>::generate(|_| unreachable!())))); pair!(e, p) }
                (0, 1) => { let e = core::mem::replace(&mut xe, Arr::from(GenericArray::<E, generic_array::typenum::U0>::generate(|_| unreachable!()))); pair!(e, &xp) }
                (0, _) => { let e = core::mem::replace(&mut xe, Arr::from(GenericArray::<E, generic_array::typenum::U0>::generate(|_| unreachable!()))); pair!(e, &mut xp) }
                (1, 0) => { let p = core::mem::replace(&mut xp, Arr::from(GenericArray::<Plain, generic_array::typenum::U0>::generate(|_| unreachable!()))); pair!(&xe, p) }
                (1, 1) => pair!(&xe, &xp),
                (1, _) => pair!(&xe, &mut xp),
                (_, 0) => { let p = core::mem::replace(&mut xp, Arr::from(GenericArray::<Plain, generic_array::typenum::U0>::generate(|_| unreachable!()))); pair!(&mut xe, p) }
                (_, 1) => pair!(&mut xe, &xp),
                (_, _) => pair!(&mut xe, &mut xp),
            }
        };
        cx.cov(&[OpKind::Zip as u64, n as u64, form as u64, r.is_err() as u64, cb.calls as u64 * r.is_err() as u64, 1 + plain_left as u64]);
        cx.probe("zip of a droppable array with a plain array of another type");
        match r {
            Ok(arr) => {
                let got = with_arr!(&arr; x, N => { let _ = N::USIZE; ids_of(x.as_slice(), 946) });
                self.check_cb_c08(cx, "zip (mixed element types)", &cb, &want, Some(got));
                self.put_arr(cx, arr);
            }
            Err(p) => {
                self.check_cb_c08(cx, "zip (mixed element types)", &cb, &want, None);
                on_panic(cx, "zip (mixed element types)", p);
            }
        }
        // the tracked operand survives in the by-reference forms (an owned one was replaced by U0)
        if ef != 0 {
            self.put_arr(cx, xe);
        }
        let stash = core::mem::take(&mut cb.stash);
        self.put_loose_all(cx, stash);
    }

    fn op_zip(&mut self, cx: &mut Cx, a: [u32; N_ARGS]) {
        let form = a[3] % 10;
        if form == 9 {
            return self.op_bx_zip(cx, a);
        }
        if a[4] % 3 != 0 {
            return self.op_zip_mixed(cx, a);
        }
        let Some((mut xa, mut xb)) = self.take_pair(cx, a[0], a[1]) else { return self.noop(cx) };
        let n = xa.len();
        let (lf, rf) = (form / 3, form % 3);
        let mut cb = Cb::<E>::new(a[2]);
        let ia = with_arr!(&xa; x, N => { let _ = N::USIZE; ids_of(x.as_slice(), 944) });
        let ib = with_arr!(&xb; x, N => { let _ = N::USIZE; ids_of(x.as_slice(), 945) });
        let want: Vec<(u32, u32)> = infra(|| ia.iter().copied().zip(ib.iter().copied()).collect());
        // by-reference operands survive the call and go back to the pool
        let mut keep_a: Option<Arr<E>> = None;
        let mut keep_b: Option<Arr<E>> = None;
        let r = {
            macro_rules! go {
                ($l:expr, $r:expr) => {
                    lib(|| Arr::from(FunctionalSequence::zip($l, $r, |l, r| zip_cb(&mut cb, l, r))))
                };
            }
            match (lf, rf) {
                (0, 0) => with_arr_pair!((xa, xb); l, r, N => { let _ = N::USIZE; go!(l, r) }; _o => unreachable!()),
                (0, 1) => { let res = with_arr_pair!((xa, &xb); l, r, N => { let _ = N::USIZE; go!(l, r) }; _o => unreachable!()); keep_b = Some(xb); res }
                (0, _) => { let res = with_arr_pair!((xa, &mut xb); l, r, N => { let _ = N::USIZE; go!(l, r) }; _o => unreachable!()); keep_b = Some(xb); res }
                (1, 0) => { let res = with_arr_pair!((&xa, xb); l, r, N => { let _ = N::USIZE; go!(l, r) }; _o => unreachable!()); keep_a = Some(xa); res }
                (1, 1) => { let res = with_arr_pair!((&xa, &xb); l, r, N => { let _ = N::USIZE; go!(l, r) }; _o => unreachable!()); keep_a = Some(xa); keep_b = Some(xb); res }
                (1, _) => { let res = with_arr_pair!((&xa, &mut xb); l, r, N => { let _ = N::USIZE; go!(l, r) }; _o => unreachable!()); keep_a = Some(xa); keep_b = Some(xb); res }
                (_, 0) => { let res = with_arr_pair!((&mut xa, xb); l, r, N => { let _ = N::USIZE; go!(l, r) }; _o => unreachable!()); keep_a = Some(xa); res }
                (_, 1) => { let res = with_arr_pair!((&mut xa, &xb); l, r, N => { let _ = N::USIZE; go!(l, r) }; _o => unreachable!()); keep_a = Some(xa); keep_b = Some(xb); res }
                (_, _) => { let res = with_arr_pair!((&mut xa, &mut xb); l, r, N => { let _ = N::USIZE; go!(l, r) }; _o => unreachable!()); keep_a = Some(xa); keep_b = Some(xb); res }
            }
        };
        cx.cov(&[OpKind::Zip as u64, n as u64, form as u64, r.is_err() as u64, cb.calls as u64 * r.is_err() as u64]);
        match r {
            Ok(arr) => {
                let got = with_arr!(&arr; x, N => { let _ = N::USIZE; ids_of(x.as_slice(), 946) });
                self.check_cb_c08(cx, "zip", &cb, &want, Some(got));
                self.put_arr(cx, arr);
            }
            Err(p) => {
                self.check_cb_c08(cx, "zip", &cb, &want, None);
                on_panic(cx, "zip", p);
            }
        }
        if let Some(x) = keep_a {
            self.put_arr(cx, x);
        }
        if let Some(x) = keep_b {
            self.put_arr(cx, x);
        }
        let stash = core::mem::take(&mut cb.stash);
        self.put_loose_all(cx, stash);
    }

    // ---- sequence ------------------------------------------------------------

    fn op_append(&mut self, cx: &mut Cx, a: [u32; N_ARGS]) {
        let Some(i) = pick_len(self.arrs.len(), a[0]) else { return self.noop(cx) };
        if !can_lengthen(self.arrs[i].len()) {
            return self.noop(cx);
        }
        let arr = self.arrs.remove(i);
        let n = arr.len();
        let front = a[1] % 2 == 1;
        let e = {
            let _g = enter(Ctx::Work);
            E::make()
        };
        let r = with_arr_longer!(arr; x, N => { let _ = N::USIZE; lib(move || if front { Arr::from(x.prepend(e)) } else { Arr::from(x.append(e)) }) }; _o => unreachable!());
        match r {
            Ok(arr) => {
                cx.cov(&[OpKind::Append as u64, n as u64, front as u64]);
                self.put_arr(cx, arr)
            }
            Err(p) => on_panic(cx, "append/prepend", p),
        }
    }

    fn op_pop(&mut self, cx: &mut Cx, a: [u32; N_ARGS]) {
        let Some(i) = pick_len(self.arrs.len(), a[0]) else { return self.noop(cx) };
        if !can_shorten(self.arrs[i].len()) {
            return self.noop(cx);
        }
        let arr = self.arrs.remove(i);
        let n = arr.len();
        let front = a[1] % 2 == 1;
        let r = with_arr_shorter!(arr; x, N => { let _ = N::USIZE; lib(move || if front { let (h, t) = x.pop_front(); (Arr::from(t), h) } else { let (t, l) = x.pop_back(); (Arr::from(t), l) }) }; _o => unreachable!());
        match r {
            Ok((arr, e)) => {
                cx.cov(&[OpKind::Pop as u64, n as u64, front as u64]);
                self.put_arr(cx, arr);
                self.hand_back(cx, e, a[2]);
            }
            Err(p) => on_panic(cx, "pop", p),
        }
    }

    fn op_split(&mut self, cx: &mut Cx, a: [u32; N_ARGS]) {
        let Some(i) = pick_len(self.arrs.len(), a[0]) else { return self.noop(cx) };
        let n = self.arrs[i].len();
        let ks: Vec<usize> = infra(|| SPLITS.iter().filter(|s| s.0 == n).map(|s| s.1).collect());
        let Some(ki) = pick_len(ks.len(), a[1]) else { return self.noop(cx) };
        let k = ks[ki];
        let arr = self.arrs.remove(i);
        let r = with_split!((arr, k); x, N, K => { let _ = N::USIZE; lib(move || { let (h, t) = Split::<E, K>::split(x); (Arr::from(h), Arr::from(t)) }) }; _o => unreachable!());
        match r {
            Ok((h, t)) => {
                cx.cov(&[OpKind::Split as u64, n as u64, k as u64]);
                self.put_arr(cx, h);
                self.put_arr(cx, t);
            }
            Err(p) => on_panic(cx, "split", p),
        }
    }

    fn op_concat(&mut self, cx: &mut Cx, a: [u32; N_ARGS]) {
        if self.arrs.len() < 2 {
            return self.noop(cx);
        }
        let i = a[0] as usize % self.arrs.len();
        let mut j = a[1] as usize % (self.arrs.len() - 1);
        if j >= i {
            j += 1;
        }
        let (n, m) = (self.arrs[i].len(), self.arrs[j].len());
        if !can_concat(n, m) {
            return self.noop(cx);
        }
        let (hi, lo) = if i > j { (i, j) } else { (j, i) };
        let x_hi = self.arrs.remove(hi);
        let x_lo = self.arrs.remove(lo);
        let (xa, xb) = if i > j { (x_hi, x_lo) } else { (x_lo, x_hi) };
        let r = with_concat!((xa, xb); l, r, N, M => { let _ = (N::USIZE, M::USIZE); lib(move || Arr::from(Concat::concat(l, r))) }; _o => unreachable!());
        match r {
            Ok(arr) => {
                cx.cov(&[OpKind::Concat as u64, n as u64, m as u64]);
                self.put_arr(cx, arr)
            }
            Err(p) => on_panic(cx, "concat", p),
        }
    }

    fn op_remove(&mut self, cx: &mut Cx, a: [u32; N_ARGS]) {
        let Some(i) = pick_len(self.arrs.len(), a[0]) else { return self.noop(cx) };
        let n = self.arrs[i].len();
        if !can_shorten(n) {
            return self.noop(cx);
        }
        let arr = self.arrs.remove(i);
        let idx = a[1] as usize % n;
        let swap = a[2] % 2 == 1;
        let r = with_arr_shorter!(arr; x, N => { let _ = N::USIZE; lib(move || { let (e, rest) = if swap { x.swap_remove(idx) } else { x.remove(idx) }; (Arr::from(rest), e) }) }; _o => unreachable!());
        match r {
            Ok((arr, e)) => {
                cx.cov(&[OpKind::Remove as u64, n as u64, idx as u64, swap as u64]);
                self.put_arr(cx, arr);
                self.hand_back(cx, e, a[3]);
            }
            Err(p) => on_panic(cx, "remove/swap_remove", p),
        }
    }

    fn op_flatten(&mut self, cx: &mut Cx, a: [u32; N_ARGS]) {
        let Some(i) = pick_len(self.nests.len(), a[0]) else { return self.noop(cx) };
        let nest = self.nests.remove(i);
        let (n, m) = nest.dims();
        let r = with_nest!(nest; x, N, M => { let _ = (N::USIZE, M::USIZE); lib(move || Arr::from(Flatten::flatten(x))) });
        match r {
            Ok(arr) => {
                cx.cov(&[OpKind::Flatten as u64, n as u64, m as u64]);
                self.put_arr(cx, arr)
            }
            Err(p) => on_panic(cx, "flatten", p),
        }
    }

    fn op_unflatten(&mut self, cx: &mut Cx, a: [u32; N_ARGS]) {
        let Some(i) = pick_len(self.arrs.len(), a[0]) else { return self.noop(cx) };
        let nm = self.arrs[i].len();
        let ns: Vec<usize> = infra(|| UNFLATTENS.iter().filter(|s| s.0 == nm).map(|s| s.1).collect());
        let Some(ni) = pick_len(ns.len(), a[1]) else { return self.noop(cx) };
        let n = ns[ni];
        let arr = self.arrs.remove(i);
        let r = with_unflatten!((arr, n); x, NM, N => { let _ = (NM::USIZE, N::USIZE); lib(move || Nest::from(Unflatten::<E, NM, N>::unflatten(x))) }; _o => unreachable!());
        match r {
            Ok(nest) => {
                cx.cov(&[OpKind::Unflatten as u64, nm as u64, n as u64]);
                self.put_nest(cx, nest)
            }
            Err(p) => on_panic(cx, "unflatten", p),
        }
    }

    fn op_nest_gen(&mut self, cx: &mut Cx, a: [u32; N_ARGS]) {
        let ni = a[0] as usize % NESTS.len();
        let r = with_nest_dims!(ni; N, M => lib(|| {
            Nest::from(GenericArray::<GenericArray<E, N>, M>::generate(|_| GenericArray::<E, N>::generate(|_| {
                let _g = enter(Ctx::Work);
                ledger::tick(Seam::Closure);
                E::make()
            })))
        }));
        match r {
            Ok(nest) => {
                cx.cov(&[OpKind::NestGen as u64, ni as u64]);
                self.put_nest(cx, nest)
            }
            Err(p) => on_panic(cx, "nested generate", p),
        }
    }

    /// clone of an array whose elements are arrays (Clone seam fires once per innermost element)
    fn op_nest_clone(&mut self, cx: &mut Cx, a: [u32; N_ARGS]) {
        let Some(i) = pick_len(self.nests.len(), a[0]) else { return self.noop(cx) };
        let (n, m) = self.nests[i].dims();
        let r = with_nest!(&self.nests[i]; x, N, M => { let _ = (N::USIZE, M::USIZE); lib(|| Nest::from(x.clone())) });
        cx.cov(&[OpKind::NestClone as u64, n as u64, m as u64, r.is_err() as u64]);
        match r {
            Ok(c) => {
                if cx.checks.c08 && ledger::seam_count(Seam::Clone) as usize != n * m {
                    fail("C08-clone-calls", format!("clone of a {m}-array of {n}-arrays called Clone {} times", ledger::seam_count(Seam::Clone)));
                }
                self.put_nest(cx, c)
            }
            Err(p) => on_panic(cx, "nested clone", p),
        }
    }

    /// by-value iteration over an array of arrays: some inner arrays are handed to the caller,
    /// the rest are dropped with the iterator
    fn op_nest_into_iter(&mut self, cx: &mut Cx, a: [u32; N_ARGS]) {
        let Some(i) = pick_len(self.nests.len(), a[0]) else { return self.noop(cx) };
        let nest = self.nests.remove(i);
        let (n, m) = nest.dims();
        let take = a[1] as usize % (m + 2);
        let back = a[2] % 2 == 1;
        let mut got: Vec<Arr<E>> = infra(Vec::new);
        let r = with_nest!(nest; x, N, M => { let _ = (N::USIZE, M::USIZE); lib(|| {
            let mut it = x.into_iter();
            for k in 0..take {
                let inner = if back && k % 2 == 0 { it.next_back() } else { it.next() };
                match inner {
                    Some(arr) => { let v = Arr::from(arr); infra(|| got.push(v)); }
                    None => break,
                }
            }
            drop(it);
        }) });
        cx.cov(&[OpKind::NestIntoIter as u64, n as u64, m as u64, take.min(m + 1) as u64, back as u64, r.is_err() as u64]);
        if let Err(p) = r {
            on_panic(cx, "into_iter over an array of arrays", p);
        }
        for v in got {
            self.put_arr(cx, v);
        }
    }

    // ---- internals feature -----------------------------------------------------

    fn op_builder(&mut self, cx: &mut Cx, a: [u32; N_ARGS]) {
        let li = lens_idx(a[0]);
        let n = LENS[li];
        let p = a[1] as usize % (n + 1);
        let kind = a[2] % 4;
        if p == 0 {
            cx.probe("builder dropped at position 0");
        }
        if p == n {
            cx.probe("builder filled completely");
        }
        let r = with_len!(li; N => lib(|| unsafe {
            let mk = || { let _g = enter(Ctx::Work); ledger::tick(Seam::Closure); E::make() };
            match kind {
                0 => {
                    let mut b = ArrayBuilder::<E, N>::new();
                    {
                        let (it, pos) = b.iter_position();
                        for dst in it.take(p) {
                            dst.write(mk());
                            *pos += 1;
                        }
                    }
                    if p == N::USIZE { Some(Arr::from(b.assume_init())) } else { drop(b); None }
                }
                1 => {
                    let mut storage = GenericArray::<E, N>::uninit();
                    let mut b = IntrusiveArrayBuilder::new(&mut storage);
                    {
                        let (it, pos) = b.iter_position();
                        for dst in it.take(p) {
                            dst.write(mk());
                            *pos += 1;
                        }
                    }
                    if p == N::USIZE { b.finish(); Some(Arr::from(IntrusiveArrayBuilder::array_assume_init(storage))) } else { drop(b); None }
                }
                2 => {
                    // `extend` from a source that yields p items
                    let mut b = ArrayBuilder::<E, N>::new();
                    b.extend((0..p).map(|_| mk()));
                    if b.is_full() != (p == N::USIZE) {
                        fail("unexpected-panic", format!("ArrayBuilder::<{}>::extend with {p} items reports is_full() = {}", N::USIZE, b.is_full()));
                    }
                    if p == N::USIZE { Some(Arr::from(b.assume_init())) } else { drop(b); None }
                }
                _ => {
                    let mut storage = GenericArray::<E, N>::uninit();
                    let mut b = IntrusiveArrayBuilder::new(&mut storage);
                    b.extend((0..p).map(|_| mk()));
                    if b.is_full() != (p == N::USIZE) {
                        fail("unexpected-panic", format!("IntrusiveArrayBuilder::<{}>::extend with {p} items reports is_full() = {}", N::USIZE, b.is_full()));
                    }
                    if p == N::USIZE { b.finish(); Some(Arr::from(IntrusiveArrayBuilder::array_assume_init(storage))) } else { drop(b); None }
                }
            }
        }));
        cx.cov(&[OpKind::BuilderRun as u64, n as u64, p as u64, kind as u64, r.is_err() as u64]);
        match r {
            Ok(Some(arr)) => self.put_arr(cx, arr),
            Ok(None) => {}
            Err(pn) => on_panic(cx, "array builder", pn),
        }
    }

    fn op_consumer(&mut self, cx: &mut Cx, a: [u32; N_ARGS]) {
        let Some(i) = pick_len(self.arrs.len(), a[0]) else { return self.noop(cx) };
        let arr = self.arrs.remove(i);
        let n = arr.len();
        let p = a[1] as usize % (n + 1);
        let mut out: Vec<E> = infra(Vec::new);
        let r = with_arr!(arr; x, N => { let _ = N::USIZE; lib(|| unsafe {
            let mut c = ArrayConsumer::new(x);
            {
                let (it, pos) = c.iter_position();
                for src in it.take(p) {
                    let v = core::ptr::read(src);
                    *pos += 1;
                    let _g = enter(Ctx::Work);
                    ledger::tick(Seam::Closure);
                    v.observe(947);
                    infra(|| out.push(v));
                }
            }
            drop(c);
        }) });
        cx.cov(&[OpKind::ConsumerRun as u64, n as u64, p as u64, r.is_err() as u64]);
        if let Err(pn) = r {
            on_panic(cx, "array consumer", pn);
        }
        self.put_loose_all(cx, out);
    }

    // ---- caller side -------------------------------------------------------------

    fn op_drop(&mut self, cx: &mut Cx, a: [u32; N_ARGS]) {
        let kind = a[0] % 6;
        match kind {
            0 => {
                let Some(i) = pick_len(self.arrs.len(), a[1]) else { return self.noop(cx) };
                let x = self.arrs.remove(i);
                cx.cov(&[OpKind::DropObj as u64, 0, x.len() as u64]);
                self.drop_value(cx, "drop array", x);
            }
            1 => {
                let Some(i) = pick_len(self.its.len(), a[1]) else { return self.noop(cx) };
                self.it_cov(cx, OpKind::DropObj, i, 0);
                let x = self.its.remove(i);
                self.drop_value(cx, "drop iterator", x.it);
            }
            2 => {
                let Some(i) = pick_len(self.bxs.len(), a[1]) else { return self.noop(cx) };
                let x = self.bxs.remove(i);
                cx.cov(&[OpKind::DropObj as u64, 2, x.len() as u64]);
                self.drop_value(cx, "drop box", x);
            }
            3 => {
                let Some(i) = pick_len(self.vecs.len(), a[1]) else { return self.noop(cx) };
                let x = self.vecs.remove(i);
                self.drop_value(cx, "drop vec", x);
            }
            4 => {
                let Some(i) = pick_len(self.nests.len(), a[1]) else { return self.noop(cx) };
                let x = self.nests.remove(i);
                self.drop_value(cx, "drop nested", x);
            }
            _ => {
                let Some(i) = pick_len(self.vits.len(), a[1]) else { return self.noop(cx) };
                let x = self.vits.remove(i);
                self.drop_value(cx, "drop vec iter", x);
            }
        }
    }

    fn op_release(&mut self, cx: &mut Cx, a: [u32; N_ARGS]) {
        let Some(i) = pick_len(self.loose.len(), a[0]) else { return self.noop(cx) };
        let e = self.loose.remove(i);
        e.observe(948);
        self.drop_value(cx, "release loose", e);
    }
}

#[inline]
pub fn pick_len(len: usize, a: u32) -> Option<usize> {
    if len == 0 {
        None
    } else if a >= 1000 {
        // "from the end": 1000 = the most recently created object of that kind
        Some(len - 1 - ((a - 1000) as usize % len))
    } else {
        Some(a as usize % len)
    }
}
