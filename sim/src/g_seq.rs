//! generated split of the executors: one module per group so that each group gets its own codegen unit
#![allow(unused_imports)]
use crate::alloc::{self, enter, Ctx};
use crate::elem::Elem;
use crate::gen::*;
use crate::ledger::{self, Seam};
use crate::ops::*;
use crate::world::*;
use generic_array::functional::FunctionalSequence;
use generic_array::sequence::*;
use generic_array::typenum::Unsigned;
use generic_array::GenericArray;
#[allow(unused_imports)]
use std::collections::VecDeque;

#[allow(dead_code)]
fn infra<R>(f: impl FnOnce() -> R) -> R {
    let _g = enter(Ctx::Infra);
    f()
}
use crate::exec::{is_prefix, pick_len};

ops_group!(GSeq);

impl<'a, E: Elem> GSeq<'a, E> {
    pub fn op_append(&mut self, cx: &mut Cx, a: [u32; N_ARGS]) {
        let Some(i) = pick_len(self.arrs.len(), a[0]) else { return self.noop(cx) };
        if !can_lengthen(self.arrs[i].len()) {
            return self.noop(cx);
        }
        let arr = self.arrs.remove(i);
        let n = arr.len();
        let front = a[1] % 2 == 1;
        let e = {
            let _g = enter(Ctx::Work);
            E::make()
        };
        let r = with_arr_longer!(arr; x, N => { let _ = N::USIZE; lib(move || if front { Arr::from(x.prepend(e)) } else { Arr::from(x.append(e)) }) }; _o => unreachable!());
        match r {
            Ok(arr) => {
                cx.cov(&[OpKind::Append as u64, n as u64, front as u64]);
                self.put_arr(cx, arr)
            }
            Err(p) => on_panic(cx, "append/prepend", p),
        }
    }

    pub fn op_pop(&mut self, cx: &mut Cx, a: [u32; N_ARGS]) {
        let Some(i) = pick_len(self.arrs.len(), a[0]) else { return self.noop(cx) };
        if !can_shorten(self.arrs[i].len()) {
            return self.noop(cx);
        }
        let arr = self.arrs.remove(i);
        let n = arr.len();
        let front = a[1] % 2 == 1;
        let r = with_arr_shorter!(arr; x, N => { let _ = N::USIZE; lib(move || if front { let (h, t) = x.pop_front(); (Arr::from(t), h) } else { let (t, l) = x.pop_back(); (Arr::from(t), l) }) }; _o => unreachable!());
        match r {
            Ok((arr, e)) => {
                cx.cov(&[OpKind::Pop as u64, n as u64, front as u64]);
                self.put_arr(cx, arr);
                self.hand_back(cx, e, a[2]);
            }
            Err(p) => on_panic(cx, "pop", p),
        }
    }

    pub fn op_split(&mut self, cx: &mut Cx, a: [u32; N_ARGS]) {
        let Some(i) = pick_len(self.arrs.len(), a[0]) else { return self.noop(cx) };
        let n = self.arrs[i].len();
        let ks: Vec<usize> = infra(|| SPLITS.iter().filter(|s| s.0 == n).map(|s| s.1).collect());
        let Some(ki) = pick_len(ks.len(), a[1]) else { return self.noop(cx) };
        let k = ks[ki];
        let arr = self.arrs.remove(i);
        let r = with_split!((arr, k); x, N, K => { let _ = N::USIZE; lib(move || { let (h, t) = Split::<E, K>::split(x); (Arr::from(h), Arr::from(t)) }) }; _o => unreachable!());
        match r {
            Ok((h, t)) => {
                cx.cov(&[OpKind::Split as u64, n as u64, k as u64]);
                self.put_arr(cx, h);
                self.put_arr(cx, t);
            }
            Err(p) => on_panic(cx, "split", p),
        }
    }

    pub fn op_concat(&mut self, cx: &mut Cx, a: [u32; N_ARGS]) {
        if self.arrs.len() < 2 {
            return self.noop(cx);
        }
        let i = a[0] as usize % self.arrs.len();
        let mut j = a[1] as usize % (self.arrs.len() - 1);
        if j >= i {
            j += 1;
        }
        let (n, m) = (self.arrs[i].len(), self.arrs[j].len());
        if !can_concat(n, m) {
            return self.noop(cx);
        }
        let (hi, lo) = if i > j { (i, j) } else { (j, i) };
        let x_hi = self.arrs.remove(hi);
        let x_lo = self.arrs.remove(lo);
        let (xa, xb) = if i > j { (x_hi, x_lo) } else { (x_lo, x_hi) };
        let r = with_concat!((xa, xb); l, r, N, M => { let _ = (N::USIZE, M::USIZE); lib(move || Arr::from(Concat::concat(l, r))) }; _o => unreachable!());
        match r {
            Ok(arr) => {
                cx.cov(&[OpKind::Concat as u64, n as u64, m as u64]);
                self.put_arr(cx, arr)
            }
            Err(p) => on_panic(cx, "concat", p),
        }
    }

    pub fn op_remove(&mut self, cx: &mut Cx, a: [u32; N_ARGS]) {
        let Some(i) = pick_len(self.arrs.len(), a[0]) else { return self.noop(cx) };
        let n = self.arrs[i].len();
        if !can_shorten(n) {
            return self.noop(cx);
        }
        let arr = self.arrs.remove(i);
        let idx = a[1] as usize % n;
        let swap = a[2] % 2 == 1;
        let r = with_arr_shorter!(arr; x, N => { let _ = N::USIZE; lib(move || { let (e, rest) = if swap { x.swap_remove(idx) } else { x.remove(idx) }; (Arr::from(rest), e) }) }; _o => unreachable!());
        match r {
            Ok((arr, e)) => {
                cx.cov(&[OpKind::Remove as u64, n as u64, idx as u64, swap as u64]);
                self.put_arr(cx, arr);
                self.hand_back(cx, e, a[3]);
            }
            Err(p) => on_panic(cx, "remove/swap_remove", p),
        }
    }

    pub fn op_flatten(&mut self, cx: &mut Cx, a: [u32; N_ARGS]) {
        let Some(i) = pick_len(self.nests.len(), a[0]) else { return self.noop(cx) };
        let nest = self.nests.remove(i);
        let (n, m) = nest.dims();
        let r = with_nest!(nest; x, N, M => { let _ = (N::USIZE, M::USIZE); lib(move || Arr::from(Flatten::flatten(x))) });
        match r {
            Ok(arr) => {
                cx.cov(&[OpKind::Flatten as u64, n as u64, m as u64]);
                self.put_arr(cx, arr)
            }
            Err(p) => on_panic(cx, "flatten", p),
        }
    }

    pub fn op_unflatten(&mut self, cx: &mut Cx, a: [u32; N_ARGS]) {
        let Some(i) = pick_len(self.arrs.len(), a[0]) else { return self.noop(cx) };
        let nm = self.arrs[i].len();
        let ns: Vec<usize> = infra(|| UNFLATTENS.iter().filter(|s| s.0 == nm).map(|s| s.1).collect());
        let Some(ni) = pick_len(ns.len(), a[1]) else { return self.noop(cx) };
        let n = ns[ni];
        let arr = self.arrs.remove(i);
        let r = with_unflatten!((arr, n); x, NM, N => { let _ = (NM::USIZE, N::USIZE); lib(move || Nest::from(Unflatten::<E, NM, N>::unflatten(x))) }; _o => unreachable!());
        match r {
            Ok(nest) => {
                cx.cov(&[OpKind::Unflatten as u64, nm as u64, n as u64]);
                self.put_nest(cx, nest)
            }
            // a length that is not a multiple of the inner length may be rejected (any panic message)
            Err(Panicked::Other(_)) if nm % n != 0 => {
                cx.cov(&[OpKind::Unflatten as u64, nm as u64, n as u64, 1]);
                cx.probe("unflatten of a length that is not a multiple of the inner length was rejected");
                cx.op_panicked = true;
            }
            Err(p) => on_panic(cx, "unflatten", p),
        }
    }

    pub fn op_nest_gen(&mut self, cx: &mut Cx, a: [u32; N_ARGS]) {
        let ni = a[0] as usize % NESTS.len();
        let r = with_nest_dims!(ni; N, M => lib(|| {
            Nest::from(GenericArray::<GenericArray<E, N>, M>::generate(|_| GenericArray::<E, N>::generate(|_| {
                let _g = enter(Ctx::Work);
                ledger::tick(Seam::Closure);
                E::make()
            })))
        }));
        match r {
            Ok(nest) => {
                cx.cov(&[OpKind::NestGen as u64, ni as u64]);
                self.put_nest(cx, nest)
            }
            Err(p) => on_panic(cx, "nested generate", p),
        }
    }

    /// clone of an array whose elements are arrays (Clone seam fires once per innermost element)
    pub fn op_nest_clone(&mut self, cx: &mut Cx, a: [u32; N_ARGS]) {
        let Some(i) = pick_len(self.nests.len(), a[0]) else { return self.noop(cx) };
        let (n, m) = self.nests[i].dims();
        let r = with_nest!(&self.nests[i]; x, N, M => { let _ = (N::USIZE, M::USIZE); lib(|| Nest::from(x.clone())) });
        cx.cov(&[OpKind::NestClone as u64, n as u64, m as u64, r.is_err() as u64]);
        match r {
            Ok(c) => {
                if cx.checks.c08 && ledger::seam_count(Seam::Clone) as usize != n * m {
                    fail("C08-clone-calls", format!("clone of a {m}-array of {n}-arrays called Clone {} times", ledger::seam_count(Seam::Clone)));
                }
                self.put_nest(cx, c)
            }
            Err(p) => on_panic(cx, "nested clone", p),
        }
    }

    /// by-value iteration over an array of arrays: some inner arrays are handed to the caller,
    /// the rest are dropped with the iterator
    pub fn op_nest_into_iter(&mut self, cx: &mut Cx, a: [u32; N_ARGS]) {
        let Some(i) = pick_len(self.nests.len(), a[0]) else { return self.noop(cx) };
        let nest = self.nests.remove(i);
        let (n, m) = nest.dims();
        let take = a[1] as usize % (m + 2);
        let back = a[2] % 2 == 1;
        let mut got: Vec<Arr<E>> = infra(Vec::new);
        let r = with_nest!(nest; x, N, M => { let _ = (N::USIZE, M::USIZE); lib(|| {
            let mut it = x.into_iter();
            for k in 0..take {
                let inner = if back && k % 2 == 0 { it.next_back() } else { it.next() };
                match inner {
                    Some(arr) => { let v = Arr::from(arr); infra(|| got.push(v)); }
                    None => break,
                }
            }
            drop(it);
        }) });
        cx.cov(&[OpKind::NestIntoIter as u64, n as u64, m as u64, take.min(m + 1) as u64, back as u64, r.is_err() as u64]);
        if let Err(p) = r {
            on_panic(cx, "into_iter over an array of arrays", p);
        }
        for v in got {
            self.put_arr(cx, v);
        }
    }

}
