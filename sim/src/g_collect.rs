//! generated split of the executors: one module per group so that each group gets its own codegen unit
#![allow(unused_imports)]
//! Executors: collecting from scripted sources (C07) and heap interop (C15/C16).

use crate::alloc::{self, enter, Ctx};
use crate::elem::Elem;
use crate::gen::*;
use crate::ledger::{self, Seam};
use crate::ops::*;
use crate::world::*;
use crate::exec::pick_len;
use generic_array::functional::FunctionalSequence;
use generic_array::sequence::*;
use generic_array::typenum::Unsigned;
use generic_array::{box_arr, GenericArray};
use std::marker::PhantomData;

fn infra<R>(f: impl FnOnce() -> R) -> R {
    let _g = enter(Ctx::Infra);
    f()
}

pub struct SrcStats {
    pub polls: u32,
    pub after_none: u32,
    pub produced: Vec<u32>,
    pub none_seen: bool,
}

/// The adversarial source iterator: the simulator decides how many items exist, what the
/// hint claims and whether `None` is sticky.
pub struct Src<'a, E> {
    st: &'a mut SrcStats,
    remaining: usize,
    unfused: bool,
    policy: u32,
    extra: usize,
    n: usize,
    total: usize,
    _p: PhantomData<E>,
}

pub const N_HINT_POLICIES: u32 = 9;
pub const HINT_NAMES: [&str; 9] = [
    "exact",
    "absent",
    "loose-truthful",
    "lying-low-upper",
    "lying-high-lower",
    "zero-to-max",
    "lower-only",
    "claims-exactly-N",
    "self-contradictory",
];

/// `r` = items left before the first None, `n` = the array length the collector wants,
/// `total` = items the source had at the start
pub fn hint(policy: u32, x: usize, r: usize, n: usize, total: usize) -> (usize, Option<usize>) {
    match policy % N_HINT_POLICIES {
        // truthful lower bound, upper bound below it (a hint that contradicts itself)
        8 => (r, Some(r.saturating_sub(1 + x))),
        // claims exactly N whatever it holds (an ExactSizeIterator-looking liar): N minus what it already gave
        7 => {
            let given = total - r.min(total);
            (n.saturating_sub(given), Some(n.saturating_sub(given)))
        }
        0 => (r, Some(r)),
        1 => (0, None),
        2 => (r.saturating_sub(x), Some(r + x)),
        3 => (0, Some(r.saturating_sub(1 + x))),
        4 => (r + 1 + x, None),
        5 => (0, Some(usize::MAX)),
        _ => (r.min(x), None),
    }
}

impl<'a, E: Elem> Iterator for Src<'a, E> {
    type Item = E;
    fn next(&mut self) -> Option<E> {
        let _g = enter(Ctx::Work);
        ledger::tick(Seam::SrcNext);
        self.st.polls += 1;
        let produce = if self.st.none_seen {
            self.st.after_none += 1;
            self.unfused
        } else if self.remaining > 0 {
            self.remaining -= 1;
            true
        } else {
            self.st.none_seen = true;
            false
        };
        if produce {
            let e = E::make();
            let id = e.observe(950);
            infra(|| self.st.produced.push(id));
            Some(e)
        } else {
            None
        }
    }
    fn size_hint(&self) -> (usize, Option<usize>) {
        hint(self.policy, self.extra, self.remaining, self.n, self.total)
    }
}

enum Got<E> {
    Arr(Arr<E>),
    Bx(Bx<E>),
    LenErr,
}

ops_group!(GCollect);

impl<'a, E: Elem> GCollect<'a, E> {
    pub fn op_collect(&mut self, cx: &mut Cx, a: [u32; N_ARGS]) {
        let li = lens_idx(a[0]);
        let n = LENS[li];
        // count of items before the first None: 0..=N+3
        let c = a[1] as usize % (n + 4);
        let policy = a[2] % N_HINT_POLICIES;
        let unfused = a[3] & 1 == 1;
        let entry = (a[3] >> 1) % 6;
        let extra = a[4] as usize % 4;
        let (lo, hi) = hint(policy, extra, c, n, c);
        let rules_out = lo > n || hi.map_or(false, |h| h < n);
        let expect_ok = !rules_out && c == n;
        let mut st = SrcStats {
            polls: 0,
            after_none: 0,
            produced: infra(Vec::new),
            none_seen: false,
        };
        let r = with_len!(li; N => {
            let src = Src::<E> { st: &mut st, remaining: c, unfused, policy, extra, n, total: c, _p: PhantomData };
            lib(move || match entry {
                0 => match GenericArray::<E, N>::try_from_iter(src) { Ok(x) => Got::Arr(Arr::from(x)), Err(_) => Got::LenErr },
                1 => Got::Arr(Arr::from(<GenericArray<E, N> as core::iter::FromIterator<E>>::from_iter(src))),
                2 => Got::Arr(Arr::from(src.collect::<GenericArray<E, N>>())),
                3 => match GenericArray::<E, N>::try_boxed_from_iter(src) { Ok(x) => Got::Bx(Bx::from(x)), Err(_) => Got::LenErr },
                4 => Got::Bx(Bx::from(<Box<GenericArray<E, N>> as core::iter::FromIterator<E>>::from_iter(src))),
                _ => Got::Bx(Bx::from(src.collect::<Box<GenericArray<E, N>>>())),
            })
        });
        let fired_src = infra(|| ledger::fired().iter().any(|f| f.0 == Seam::SrcNext));
        let lenclass = if c < n { 0 } else if c == n { 1 } else { 2 };
        cx.cov(&[OpKind::Collect as u64, entry as u64, n as u64, (c as i64 - n as i64 + 8) as u64, policy as u64, unfused as u64, fired_src as u64, if fired_src { st.polls as u64 } else { 0 }]);
        let _ = lenclass;
        if unfused && st.none_seen {
            cx.probe("un-fused source reached its first None");
        }
        if rules_out {
            cx.probe("size_hint rules N out");
        }
        let panics_on_mismatch = matches!(entry, 1 | 2 | 4 | 5);
        let what = ["try_from_iter", "from_iter", "collect", "try_boxed_from_iter", "Box from_iter", "collect into Box"][entry as usize];
        let c07 = cx.checks.c07;
        match r {
            Ok(Got::LenErr) => {
                if c07 && expect_ok {
                    fail("C07-right-length-rejected", format!("{what}::<{n}> returned LengthError for a source that produced exactly {n} items with hint ({lo}, {hi:?})"));
                }
            }
            Ok(got) => {
                if c07 && !expect_ok {
                    fail("C07-wrong-length-accepted", format!("{what}::<{n}> returned an array for a source with {c} items before its first None and hint ({lo}, {hi:?})"));
                }
                let ids = match &got {
                    Got::Arr(x) => with_arr!(x; y, N => { let _ = N::USIZE; ids_of(y.as_slice(), 951) }),
                    Got::Bx(x) => with_bx!(x; y, N => { let _ = N::USIZE; ids_of(y.as_slice(), 951) }),
                    Got::LenErr => unreachable!(),
                };
                if c07 && E::HAS_ID && (ids.len() > st.produced.len() || ids[..] != st.produced[..ids.len()]) {
                    fail("C07-order", format!("{what}::<{n}> returned {ids:?}, the source produced {:?}", st.produced));
                }
                match got {
                    Got::Arr(x) => self.put_arr(cx, x),
                    Got::Bx(x) => self.put_bx(cx, x),
                    Got::LenErr => {}
                }
            }
            Err(Panicked::Injected(_)) => {
                cx.lib_panics_injected += 1;
                cx.op_panicked = true;
                cx.probe("source iterator panicked");
            }
            Err(Panicked::Other(msg)) => {
                cx.op_panicked = true;
                let documented = panics_on_mismatch && infra(|| msg.contains(&format!("expected {n} items")));
                if !documented {
                    fail("unexpected-panic", format!("{what}::<{n}>: the library panicked on its own: {msg}"));
                } else if c07 && expect_ok {
                    fail("C07-right-length-rejected", format!("{what}::<{n}> panicked ({msg}) for a source that produced exactly {n} items with hint ({lo}, {hi:?})"));
                }
            }
        }
        if c07 {
            if st.after_none > 0 {
                fail("C07-polled-after-none", format!("{what}::<{n}> polled the source {} more time(s) after it had returned None (count {c}, hint ({lo}, {hi:?}))", st.after_none));
            }
            if st.produced.len() > n + 1 {
                fail("C07-pulled-too-many", format!("{what}::<{n}> pulled {} items (at most {} allowed)", st.produced.len(), n + 1));
            }
        }
    }

}
