//! generated split of the executors: one module per group so that each group gets its own codegen unit
#![allow(unused_imports)]
use crate::alloc::{self, enter, Ctx};
use crate::elem::Elem;
use crate::gen::*;
use crate::ledger::{self, Seam};
use crate::ops::*;
use crate::world::*;
use generic_array::functional::FunctionalSequence;
use generic_array::sequence::*;
use generic_array::typenum::Unsigned;
use generic_array::GenericArray;
#[allow(unused_imports)]
use std::collections::VecDeque;

#[allow(dead_code)]
fn infra<R>(f: impl FnOnce() -> R) -> R {
    let _g = enter(Ctx::Infra);
    f()
}
use crate::exec::{is_prefix, pick_len};

ops_group!(GZip);

impl<'a, E: Elem> GZip<'a, E> {
    /// make sure two distinct arrays of the same length exist; returns them removed from the pool
    pub fn take_pair(&mut self, cx: &mut Cx, a: u32, b: u32) -> Option<(Arr<E>, Arr<E>)> {
        let i = pick_len(self.arrs.len(), a)?;
        let n = self.arrs[i].len();
        let partners: Vec<usize> = infra(|| (0..self.arrs.len()).filter(|&j| j != i && self.arrs[j].len() == n).collect());
        if let Some(pj) = pick_len(partners.len(), b) {
            let j = partners[pj];
            let (hi, lo) = if i > j { (i, j) } else { (j, i) };
            let x_hi = self.arrs.remove(hi);
            let x_lo = self.arrs.remove(lo);
            if i > j {
                Some((x_hi, x_lo))
            } else {
                Some((x_lo, x_hi))
            }
        } else {
            // no partner of that length: the caller makes one (no seam is involved)
            let li = self.arrs[i].len_idx();
            let made = with_len!(li; N => lib(|| { Arr::from(GenericArray::<E, N>::generate(|_| { let _g = enter(Ctx::Work); E::make() })) }));
            match made {
                Ok(p) => {
                    let x = self.arrs.remove(i);
                    Some((x, p))
                }
                Err(p) => {
                    on_panic(cx, "generate (partner)", p);
                    None
                }
            }
        }
    }

    /// zip of a tracked array with an array of plain (no-Drop) elements of another type, on either
    /// side, in all nine receiver x argument forms
    pub fn op_zip_mixed(&mut self, cx: &mut Cx, a: [u32; N_ARGS]) {
        let form = a[3] % 9;
        let plain_left = a[4] % 3 == 1;
        let Some(i) = pick_len(self.arrs.len(), a[0]) else { return self.noop(cx) };
        let mut xe = self.arrs.remove(i);
        let n = xe.len();
        let li = xe.len_idx();
        let made = with_len!(li; N => lib(|| Arr::<Plain>::from(GenericArray::<Plain, N>::generate(|i| Plain(i as u32)))));
        let mut xp = match made {
            Ok(p) => p,
            Err(p) => {
                self.put_arr(cx, xe);
                return on_panic(cx, "generate (plain partner)", p);
            }
        };
        let (lf, rf) = (form / 3, form % 3);
        let mut cb = Cb::<E>::new(a[2]);
        let ie = with_arr!(&xe; x, N => { let _ = N::USIZE; ids_of(x.as_slice(), 944) });
        let want: Vec<(u32, u32)> = infra(|| ie.iter().enumerate().map(|(k, &id)| if plain_left { (PLAIN_TAG | k as u32, id) } else { (id, PLAIN_TAG | k as u32) }).collect());
        let (ef, pf) = if plain_left { (rf, lf) } else { (lf, rf) };
        let r = {
            macro_rules! go {
                ($l:expr, $r:expr) => {
                    lib(|| Arr::<E>::from(FunctionalSequence::zip($l, $r, |l, r| zip_cb(&mut cb, l, r))))
                };
            }
            macro_rules! pair {
                ($e:expr, $p:expr) => {
                    if plain_left {
                        with_arr_pair!(($p, $e); l, r, N => { let _ = N::USIZE; go!(l, r) }; _o => unreachable!())
                    } else {
                        with_arr_pair!(($e, $p); l, r, N => { let _ = N::USIZE; go!(l, r) }; _o => unreachable!())
                    }
                };
            }
            match (ef, pf) {
                (0, 0) => { let (e, p) = (core::mem::replace(&mut xe, Arr::from(GenericArray::<E, generic_array::typenum::U0>::generate(|_| unreachable!()))), core::mem::replace(&mut xp, Arr::from(GenericArray::<Plain, generic_array::typenum::U0>::generate(|_| unreachable!())))); pair!(e, p) }
                (0, 1) => { let e = core::mem::replace(&mut xe, Arr::from(GenericArray::<E, generic_array::typenum::U0>::generate(|_| unreachable!()))); pair!(e, &xp) }
                (0, _) => { let e = core::mem::replace(&mut xe, Arr::from(GenericArray::<E, generic_array::typenum::U0>::generate(|_| unreachable!()))); pair!(e, &mut xp) }
                (1, 0) => { let p = core::mem::replace(&mut xp, Arr::from(GenericArray::<Plain, generic_array::typenum::U0>::generate(|_| unreachable!()))); pair!(&xe, p) }
                (1, 1) => pair!(&xe, &xp),
                (1, _) => pair!(&xe, &mut xp),
                (_, 0) => { let p = core::mem::replace(&mut xp, Arr::from(GenericArray::<Plain, generic_array::typenum::U0>::generate(|_| unreachable!()))); pair!(&mut xe, p) }
                (_, 1) => pair!(&mut xe, &xp),
                (_, _) => pair!(&mut xe, &mut xp),
            }
        };
        cx.cov(&[OpKind::Zip as u64, n as u64, form as u64, r.is_err() as u64, cb.calls as u64 * r.is_err() as u64, 1 + plain_left as u64]);
        cx.probe("zip of a droppable array with a plain array of another type");
        match r {
            Ok(arr) => {
                let got = with_arr!(&arr; x, N => { let _ = N::USIZE; ids_of(x.as_slice(), 946) });
                self.check_cb_c08(cx, "zip (mixed element types)", &cb, &want, Some(got));
                self.put_arr(cx, arr);
            }
            Err(p) => {
                self.check_cb_c08(cx, "zip (mixed element types)", &cb, &want, None);
                on_panic(cx, "zip (mixed element types)", p);
            }
        }
        // the tracked operand survives in the by-reference forms (an owned one was replaced by U0)
        if ef != 0 {
            self.put_arr(cx, xe);
        }
        let stash = core::mem::take(&mut cb.stash);
        self.put_loose_all(cx, stash);
    }

    pub fn op_zip(&mut self, cx: &mut Cx, a: [u32; N_ARGS]) {
        let form = a[3] % 10;
        if form == 9 {
            return crate::g_bx::GBx(&mut *self.0).op_bx_zip(cx, a);
        }
        if a[4] % 3 != 0 {
            return self.op_zip_mixed(cx, a);
        }
        let Some((mut xa, mut xb)) = self.take_pair(cx, a[0], a[1]) else { return self.noop(cx) };
        let n = xa.len();
        let (lf, rf) = (form / 3, form % 3);
        let mut cb = Cb::<E>::new(a[2]);
        let ia = with_arr!(&xa; x, N => { let _ = N::USIZE; ids_of(x.as_slice(), 944) });
        let ib = with_arr!(&xb; x, N => { let _ = N::USIZE; ids_of(x.as_slice(), 945) });
        let want: Vec<(u32, u32)> = infra(|| ia.iter().copied().zip(ib.iter().copied()).collect());
        // by-reference operands survive the call and go back to the pool
        let mut keep_a: Option<Arr<E>> = None;
        let mut keep_b: Option<Arr<E>> = None;
        let r = {
            macro_rules! go {
                ($l:expr, $r:expr) => {
                    lib(|| Arr::from(FunctionalSequence::zip($l, $r, |l, r| zip_cb(&mut cb, l, r))))
                };
            }
            match (lf, rf) {
                (0, 0) => with_arr_pair!((xa, xb); l, r, N => { let _ = N::USIZE; go!(l, r) }; _o => unreachable!()),
                (0, 1) => { let res = with_arr_pair!((xa, &xb); l, r, N => { let _ = N::USIZE; go!(l, r) }; _o => unreachable!()); keep_b = Some(xb); res }
                (0, _) => { let res = with_arr_pair!((xa, &mut xb); l, r, N => { let _ = N::USIZE; go!(l, r) }; _o => unreachable!()); keep_b = Some(xb); res }
                (1, 0) => { let res = with_arr_pair!((&xa, xb); l, r, N => { let _ = N::USIZE; go!(l, r) }; _o => unreachable!()); keep_a = Some(xa); res }
                (1, 1) => { let res = with_arr_pair!((&xa, &xb); l, r, N => { let _ = N::USIZE; go!(l, r) }; _o => unreachable!()); keep_a = Some(xa); keep_b = Some(xb); res }
                (1, _) => { let res = with_arr_pair!((&xa, &mut xb); l, r, N => { let _ = N::USIZE; go!(l, r) }; _o => unreachable!()); keep_a = Some(xa); keep_b = Some(xb); res }
                (_, 0) => { let res = with_arr_pair!((&mut xa, xb); l, r, N => { let _ = N::USIZE; go!(l, r) }; _o => unreachable!()); keep_a = Some(xa); res }
                (_, 1) => { let res = with_arr_pair!((&mut xa, &xb); l, r, N => { let _ = N::USIZE; go!(l, r) }; _o => unreachable!()); keep_a = Some(xa); keep_b = Some(xb); res }
                (_, _) => { let res = with_arr_pair!((&mut xa, &mut xb); l, r, N => { let _ = N::USIZE; go!(l, r) }; _o => unreachable!()); keep_a = Some(xa); keep_b = Some(xb); res }
            }
        };
        cx.cov(&[OpKind::Zip as u64, n as u64, form as u64, r.is_err() as u64, cb.calls as u64 * r.is_err() as u64]);
        match r {
            Ok(arr) => {
                let got = with_arr!(&arr; x, N => { let _ = N::USIZE; ids_of(x.as_slice(), 946) });
                self.check_cb_c08(cx, "zip", &cb, &want, Some(got));
                self.put_arr(cx, arr);
            }
            Err(p) => {
                self.check_cb_c08(cx, "zip", &cb, &want, None);
                on_panic(cx, "zip", p);
            }
        }
        if let Some(x) = keep_a {
            self.put_arr(cx, x);
        }
        if let Some(x) = keep_b {
            self.put_arr(cx, x);
        }
        let stash = core::mem::take(&mut cb.stash);
        self.put_loose_all(cx, stash);
    }

}
