//! Environment lanes that need a process of their own:
//!  * C15: multi-MiB boxed constructions on a thread with a 256 KiB stack;
//!  * C16: the j-th library allocation of an operation returns null (one case per child).

use crate::driver::{harness_error, run_child, verif_root};
use crate::elem::ElemKind;
use crate::ops::OpKind::*;
use crate::ops::*;
use crate::props::LAST;
use crate::rng::Rng;
use crate::run::*;
use serde_json::{json, Value};

pub const SMALL_STACK: usize = 256 * 1024;
pub const BIG_CASES: &[&str] = &[
    "default_boxed_u32_4MiB",
    "boxed_generate_u32_4MiB",
    "box_arr_repeat_u32_4MiB",
    "boxed_from_iter_u32_4MiB",
    "try_boxed_from_iter_u32_4MiB",
    "boxed_generate_u8x16_4MiB",
    "default_boxed_u8x16_4MiB",
    "boxed_collect_u8x16_4MiB",
    "boxed_from_iter_loose_hint_u32_4MiB",
    "try_boxed_from_iter_absent_hint_u32_4MiB",
    "try_from_vec_u32_4MiB",
    "box_arr_repeat_expr_u64_8MiB",
    "box_arr_repeat_u8x16_4MiB",
    "boxed_generate_dropglue_4MiB",
    "default_boxed_dropglue_4MiB",
    "boxed_from_iter_dropglue_4MiB",
    "box_arr_repeat_dropglue_4MiB",
];
/// Few, large elements (an array as large as the whole stack). In an unoptimised build every frame
/// between the caller's generator and the heap slot holds its own copy of the element, so correct
/// code may need as much stack as the array; only the optimised (thorough) build separates "moves
/// an element through a few temporaries" from "builds the whole array on the stack".
pub const BIG_CASES_OPTIMISED_ONLY: &[&str] = &[
    "default_boxed_16_x_16KiB_elements",
    "boxed_generate_16_x_16KiB_elements",
    "boxed_from_iter_16_x_16KiB_elements",
];
/// not a check: demonstrates that the small stack really cannot hold the array
pub const BIG_PROBE: &str = "probe_stack_default_u32_4MiB";

fn run_stack_case(case: &str, optimised: bool) -> crate::driver::ChildEnd {
    let exe = format!("{}/target/{}/stacklane", verif_root(), if optimised { "release" } else { "debug" });
    if !std::path::Path::new(&exe).exists() {
        harness_error(&format!("{exe} is missing: run bin/setup (or bin/check, which builds it)"));
    }
    crate::driver::run_exe(&exe, &[case.to_string()])
}

pub fn small_stack_lane(tier: &str) -> (Option<String>, Value) {
    let _ = tier;
    let mut results = serde_json::Map::new();
    let mut violation: Option<String> = None;
    let mut cases: Vec<(&str, bool)> = BIG_CASES.iter().map(|c| (*c, false)).collect();
    cases.extend(BIG_CASES_OPTIMISED_ONLY.iter().map(|c| (*c, true)));
    for (case, optimised) in &cases {
        let end = run_stack_case(case, *optimised);
        let ok = end.code == Some(0);
        results.insert(format!("{case}{}", if *optimised { " [optimised build]" } else { "" }), json!(if ok { "completed, contents correct".to_string() } else { format!("FAILED code={:?} signal={:?} {}", end.code, end.signal, end.stderr_tail) }));
        if !ok && violation.is_none() {
            let p = format!("{}/replays/C15-small-stack-{case}.json", verif_root());
            let class = if end.signal.is_some() { "C15-big-array-overflows-small-stack" } else { "C15-big-array-wrong-contents" };
            let j = json!({"format": 1, "property": "C15", "lane": "small_stack", "case": case, "optimised": optimised,
                "violation": {"class": class, "detail": format!("{case} on a thread with a {SMALL_STACK}-byte stack: code={:?} signal={:?} {}", end.code, end.signal, end.stderr_tail)}});
            let _ = std::fs::create_dir_all(format!("{}/replays", verif_root()));
            std::fs::write(&p, serde_json::to_string_pretty(&j).unwrap()).unwrap_or_else(|e| harness_error(&format!("{p}: {e}")));
            println!("violation (small-stack lane): {case}: code={:?} signal={:?} {}", end.code, end.signal, end.stderr_tail);
            violation = Some(p);
        }
    }
    let probe = run_stack_case(BIG_PROBE, false);
    results.insert(
        "sensitivity_probe_stack_built_array_of_same_size".into(),
        json!(if probe.code == Some(0) { "completed (the small stack did NOT bite: lane is not sensitive in this build)".to_string() } else { format!("killed as expected (signal {:?}): a 4 MiB array built on the {SMALL_STACK}-byte stack cannot survive", probe.signal) }),
    );
    (violation, json!({"stack_bytes": SMALL_STACK, "cases": results}))
}

pub fn replay_lane(v: &Value) -> Option<i32> {
    match v["lane"].as_str()? {
        "small_stack" => {
            let case = v["case"].as_str()?.to_string();
            let end = run_stack_case(&case, v["optimised"].as_bool().unwrap_or(false));
            if end.code == Some(0) {
                println!("no violation: {case} completes on the small stack");
                Some(0)
            } else {
                println!("violation class={} : {case}: code={:?} signal={:?} {}", v["violation"]["class"].as_str().unwrap_or(""), end.code, end.signal, end.stderr_tail);
                Some(1)
            }
        }
        "miri" => None,
        "alloc_failure" => {
            let t = trace_from_json(v).ok()?;
            let j = v["fail_alloc"].as_u64()? as i64;
            let (verdict, detail) = alloc_failure_case(&t, j);
            match verdict {
                AfVerdict::Violation(class) => {
                    println!("violation class={class} : {detail}");
                    Some(1)
                }
                _ => {
                    println!("no violation: {detail}");
                    Some(0)
                }
            }
        }
        _ => None,
    }
}

// ---------------------------------------------------------------------------
// allocation failure

pub enum AfVerdict {
    /// the armed allocation was never reached; the trace completed
    NotFired,
    /// ended through the standard allocation-error path
    AllocErrorPath,
    Violation(&'static str),
}

fn write_tmp_trace(t: &Trace, tag: &str) -> std::path::PathBuf {
    let dir = std::path::PathBuf::from(format!("{}/target/tmp/af-{}", verif_root(), std::process::id()));
    std::fs::create_dir_all(&dir).unwrap_or_else(|e| harness_error(&format!("{dir:?}: {e}")));
    static SEQ: std::sync::atomic::AtomicUsize = std::sync::atomic::AtomicUsize::new(0);
    let p = dir.join(format!("{tag}-{}.json", SEQ.fetch_add(1, std::sync::atomic::Ordering::Relaxed)));
    std::fs::write(&p, serde_json::to_vec(&trace_to_json(t)).unwrap()).unwrap();
    p
}

/// number of library-context allocation requests the last operation of `t` makes
pub fn count_lib_allocs(t: &Trace) -> Option<u64> {
    let p = write_tmp_trace(t, "count");
    let end = run_child(&["alloccount".into(), p.to_string_lossy().to_string()], &[], true);
    let _ = std::fs::remove_file(&p);
    if end.code != Some(0) {
        return None;
    }
    end.stdout_tail.lines().find_map(|l| l.strip_prefix("LIBALLOCS=").and_then(|x| x.trim().parse().ok()))
}

pub fn alloc_failure_case(t: &Trace, j: i64) -> (AfVerdict, String) {
    let p = write_tmp_trace(t, &format!("fail-{j}"));
    let end = run_child(&["allocfail".into(), p.to_string_lossy().to_string(), j.to_string()], &[], true);
    let _ = std::fs::remove_file(&p);
    let fired = end.stdout_tail.lines().find_map(|l| l.strip_prefix("FIRED=").and_then(|x| x.trim().parse::<u64>().ok()));
    let last_err = end.stderr_tail.lines().rev().find(|l| !l.trim().is_empty()).unwrap_or("").to_string();
    if end.code == Some(0) {
        return match fired {
            Some(0) => (AfVerdict::NotFired, "allocation not reached".into()),
            None => harness_error(&format!("allocation-failure child exited 0 without reporting FIRED=: {}", end.stdout_tail)),
            _ => (
                AfVerdict::Violation("C16-alloc-failure-ignored"),
                "the operation completed normally although an allocation it made returned null".into(),
            ),
        };
    }
    if end.code == Some(5) {
        return (
            AfVerdict::Violation("C16-alloc-failure-other-violation"),
            format!("after the allocation failure the run reported: {}", end.stdout_tail.lines().last().unwrap_or("")),
        );
    }
    let all_err = end.stderr_tail.clone();
    if end.signal == Some(6) && all_err.contains("memory allocation of") && all_err.contains("failed") {
        return (AfVerdict::AllocErrorPath, last_err);
    }
    (
        AfVerdict::Violation("C16-alloc-failure-not-through-alloc-error-path"),
        format!("allocation {j} of the operation returned null and the process ended with code={:?} signal={:?}: {last_err}", end.code, end.signal),
    )
}

/// the traces whose final operation is an alloc-feature operation
fn alloc_failure_traces(seed: u64, tier: &str) -> Vec<Trace> {
    let mut r = Rng::new(seed ^ 0xA110C);
    let mut out = Vec::new();
    // length indices into LENS: 0..=8 dense, then sparse
    // (24 = 1025, 26 = 4096: the lengths above 1024)
    let lens: Vec<u32> = if tier == "thorough" { vec![0, 1, 2, 3, 5, 8, 13, 16, 19, 21, 24, 26] } else { vec![0, 1, 3, 8, 16, 24] };
    let elems = [ElemKind::Tr, ElemKind::Zt, ElemKind::Pl, ElemKind::Al, ElemKind::Zp];
    let mut push = |elem: ElemKind, ops: Vec<Op>| {
        out.push(Trace { prop: Prop::C16, elem, seed: 0, ops });
    };
    for &li in &lens {
        for &e in &elems {
            let n = crate::gen::LENS[li as usize] as u32;
            push(e, vec![Op::new(BoxedGenerate, &[li])]);
            push(e, vec![Op::new(DefaultBoxed, &[li])]);
            for entry in 3..6u32 {
                push(e, vec![Op::new(Collect, &[li, n, r.pick(&[0u32, 1]), entry << 1, 0])]);
            }
            push(e, vec![Op::new(Generate, &[li, 0]), Op::new(ArrToVec, &[LAST, 0])]);
            push(e, vec![Op::new(Generate, &[li, 0]), Op::new(ArrToVec, &[LAST, 1])]);
            push(e, vec![Op::new(VecMake, &[li, 2, 0, 0]), Op::new(VecToBx, &[LAST, 0, li])]);
            push(e, vec![Op::new(VecMake, &[li, 0, 1, 0]), Op::new(VecToBx, &[LAST, 0, li])]);
            push(e, vec![Op::new(Generate, &[li, 0]), Op::new(ArrBox, &[LAST]), Op::new(BxClone, &[LAST])]);
            push(e, vec![Op::new(Generate, &[li, 0]), Op::new(ArrBox, &[LAST]), Op::new(Map, &[LAST, 1, 3])]);
            push(e, vec![Op::new(Generate, &[li, 0]), Op::new(ArrBox, &[LAST]), Op::new(Zip, &[LAST, 0, 1, 9])]);
            push(e, vec![Op::new(Generate, &[li, 0]), Op::new(ArrBox, &[LAST]), Op::new(Fold, &[LAST, 1, 3])]);
            // map to a same-size plain type, collect of a by-value iterator into a Box
            push(e, vec![Op::new(Generate, &[li, 0]), Op::new(ArrBox, &[LAST]), Op::new(Map, &[LAST, 1, 6])]);
            push(e, vec![Op::new(Generate, &[li, 0]), Op::new(IntoIter, &[LAST]), Op::new(ItCollect, &[LAST, 2, li])]);
            // the rejected-length paths (source one longer / one shorter, with spare capacity)
            push(e, vec![Op::new(VecMake, &[li, 2, 0, 2]), Op::new(VecToBx, &[LAST, 3, li])]);
            push(e, vec![Op::new(VecMake, &[li, 2, 0, 3]), Op::new(VecToBx, &[LAST, 3, li])]);
            push(e, vec![Op::new(VecMake, &[li, 1, 0, 2]), Op::new(VecToArr, &[LAST, 3, li])]);
        }
    }
    for which in 0..8u32 {
        push(ElemKind::Tr, vec![Op::new(BoxArrMacro, &[which])]);
    }
    // the alloc-feature scenarios on larger-than-a-page elements (lengths 1, 8, 17)
    for which in 5..8u32 {
        for wi in [1u32, 5, 6] {
            for e in [ElemKind::Tr, ElemKind::Pl] {
                push(e, vec![Op::new(WideOp, &[which, wi, 0, 0, 0])]);
            }
        }
    }
    out
}

pub fn alloc_failure_lane(seed: u64, tier: &str) -> (Option<String>, Value) {
    let traces = alloc_failure_traces(seed, tier);
    let known = crate::driver::load_known();
    let mut cases = 0u64;
    let mut fired_abort = 0u64;
    let mut not_fired = 0u64;
    let mut with_allocs = 0u64;
    let mut violation: Option<String> = None;
    let mut known_hits: std::collections::BTreeMap<String, u64> = Default::default();
    // run children in parallel batches
    let nw = crate::driver::workers();
    let mut jobs: Vec<(usize, i64)> = Vec::new();
    let counts: Vec<Option<u64>> = parallel_map(&traces, nw, |t| count_lib_allocs(t));
    for (ti, c) in counts.iter().enumerate() {
        match c {
            Some(c) => {
                if *c > 0 {
                    with_allocs += 1;
                }
                for j in 0..*c as i64 {
                    jobs.push((ti, j));
                }
            }
            None => harness_error(&format!("fault-free execution of an allocation-failure trace failed: {}", serde_json::to_string(&trace_to_json(&traces[ti])).unwrap())),
        }
    }
    let results: Vec<(AfVerdict, String)> = parallel_map(&jobs, nw, |&(ti, j)| alloc_failure_case(&traces[ti], j));
    for ((ti, j), (verdict, detail)) in jobs.iter().zip(results.into_iter()) {
        cases += 1;
        match verdict {
            AfVerdict::NotFired => not_fired += 1,
            AfVerdict::AllocErrorPath => fired_abort += 1,
            AfVerdict::Violation(class) => {
                let t = &traces[*ti];
                let last = t.ops.last().unwrap();
                let key = format!("{class}@{}", last.kind.name());
                if known.iter().any(|k| k.status == "known" && k.property == "C16" && k.key == key) {
                    *known_hits.entry(key).or_insert(0) += 1;
                    continue;
                }
                if violation.is_none() {
                    let p = format!("{}/replays/C16-alloc-failure-{}-{}-{}-j{}.json", verif_root(), last.kind.name(), last.args[0], t.elem.name(), j);
                    let mut jv = trace_to_json(t);
                    jv["lane"] = json!("alloc_failure");
                    jv["fail_alloc"] = json!(j);
                    jv["violation"] = json!({"class": class, "detail": detail, "key": key});
                    let _ = std::fs::create_dir_all(format!("{}/replays", verif_root()));
                    std::fs::write(&p, serde_json::to_string_pretty(&jv).unwrap()).unwrap_or_else(|e| harness_error(&format!("{p}: {e}")));
                    println!("violation (allocation-failure lane): {} (elem {}) allocation {j}: {class}: {detail}", serde_json::to_string(&jv["ops"]).unwrap(), t.elem.name());
                    violation = Some(p);
                }
            }
        }
    }
    for (k, hits) in &known_hits {
        let what = known.iter().find(|x| &x.key == k).map(|x| x.what.clone()).unwrap_or_default();
        println!("KNOWN-FINDING: property=C16 {k} ({hits} cases): {what}");
    }
    let _ = std::fs::remove_dir_all(format!("{}/target/tmp/af-{}", verif_root(), std::process::id()));
    (
        violation,
        json!({"traces": traces.len(), "traces_whose_last_operation_allocates": with_allocs, "child_processes_with_one_allocation_failing": cases,
               "ended_in_standard_alloc_error_path": fired_abort, "allocation_not_reached": not_fired, "known_finding_hits": known_hits}),
    )
}

/// run `f` over items on `nw` OS threads (each call spawns a child process; order preserved)
fn parallel_map<T: Sync, R: Send>(items: &[T], nw: usize, f: impl Fn(&T) -> R + Sync) -> Vec<R> {
    let n = items.len();
    let next = std::sync::atomic::AtomicUsize::new(0);
    let slots: Vec<std::sync::Mutex<Option<R>>> = (0..n).map(|_| std::sync::Mutex::new(None)).collect();
    std::thread::scope(|s| {
        for _ in 0..nw.max(1).min(n.max(1)) {
            s.spawn(|| loop {
                let i = next.fetch_add(1, std::sync::atomic::Ordering::Relaxed);
                if i >= n {
                    break;
                }
                let r = f(&items[i]);
                *slots[i].lock().unwrap() = Some(r);
            });
        }
    });
    slots.into_iter().map(|m| m.into_inner().unwrap().unwrap()).collect()
}

// ---------------------------------------------------------------------------
// Miri lane (thorough tier): the same engine, in-process, interpreted — catches what neither the
// ledger nor the standard library's precondition checks can see (reads of uninitialised slots,
// out-of-bounds reads of plain data, use of freed blocks, invalid references).

pub fn miri_lane(prop: Prop, seed: u64, procs: usize, runs_each: u64) -> (Option<String>, Value) {
    use std::process::{Command, Stdio};
    let mut kids = Vec::new();
    for w in 0..procs {
        let from = w as u64 * runs_each;
        let to = from + runs_each;
        let mut c = Command::new("cargo");
        c.args(["+nightly", "miri", "run", "--offline", "--manifest-path", &format!("{}/sim/Cargo.toml", verif_root()), "--", "miri-runs", prop.name(), &seed.to_string(), &from.to_string(), &to.to_string()])
            .env("MIRIFLAGS", "-Zmiri-ignore-leaks")
            .env("CARGO_NET_OFFLINE", "true")
            .env("RUST_BACKTRACE", "0")
            .env_remove("CARGO_TARGET_DIR")
            .stdin(Stdio::null())
            .stdout(Stdio::piped())
            .stderr(Stdio::piped());
        match c.spawn() {
            Ok(ch) => kids.push((from, to, ch)),
            Err(e) => return (None, json!({"status": format!("skipped: cannot start cargo miri: {e}")})),
        }
    }
    let mut runs = 0u64;
    let mut ops = 0u64;
    let mut violation: Option<String> = None;
    let mut notes: Vec<String> = Vec::new();
    for (from, to, ch) in kids {
        let o = match ch.wait_with_output() {
            Ok(o) => o,
            Err(e) => {
                notes.push(format!("wait failed: {e}"));
                continue;
            }
        };
        let out = String::from_utf8_lossy(&o.stdout).to_string();
        let err = String::from_utf8_lossy(&o.stderr).to_string();
        if let Some(l) = out.lines().find(|l| l.starts_with("MIRI-OK")) {
            runs += to - from;
            ops += l.split("ops=").nth(1).and_then(|x| x.trim().parse::<u64>().ok()).unwrap_or(0);
            continue;
        }
        let last_run = out.lines().rev().find_map(|l| l.strip_prefix("RUN ").and_then(|x| x.trim().parse::<u64>().ok()));
        if let Some(l) = out.lines().find(|l| l.starts_with("MIRI-VIOLATION ")) {
            // a ledger violation seen under Miri: the recorded trace replays natively
            let j: Value = serde_json::from_str(&l["MIRI-VIOLATION ".len()..]).unwrap_or(Value::Null);
            if violation.is_none() {
                let p = format!("{}/replays/{}-miri-{}.json", verif_root(), prop.name(), j["seed"].as_u64().unwrap_or(0));
                let _ = std::fs::create_dir_all(format!("{}/replays", verif_root()));
                std::fs::write(&p, serde_json::to_string_pretty(&j).unwrap()).unwrap_or_else(|e| harness_error(&format!("{p}: {e}")));
                println!("violation (Miri lane, ledger): {} — {}", j["violation"]["class"].as_str().unwrap_or(""), j["violation"]["detail"].as_str().unwrap_or(""));
                violation = Some(p);
            }
            continue;
        }
        if err.contains("Undefined Behavior") {
            let line = err.lines().find(|l| l.contains("Undefined Behavior")).unwrap_or("").to_string();
            let wher = err.lines().skip_while(|l| !l.contains("Undefined Behavior")).find(|l| l.trim_start().starts_with("-->")).unwrap_or("").trim().to_string();
            if violation.is_none() {
                let run = last_run.unwrap_or(from);
                let rseed = crate::rng::run_seed(seed, prop.num() ^ 0x4D49_5249, run);
                let mut t = crate::props::gen_trace(prop, rseed);
                t.ops.truncate(24);
                let mut j = trace_to_json(&t);
                j["lane"] = json!("miri");
                j["violation"] = json!({"class": "miri-undefined-behavior", "detail": format!("{line} {wher}")});
                let p = format!("{}/replays/{}-miri-ub-{}.json", verif_root(), prop.name(), rseed);
                let _ = std::fs::create_dir_all(format!("{}/replays", verif_root()));
                std::fs::write(&p, serde_json::to_string_pretty(&j).unwrap()).unwrap_or_else(|e| harness_error(&format!("{p}: {e}")));
                println!("violation (Miri lane): run {run}: {line} {wher}");
                violation = Some(p);
            }
            continue;
        }
        // anything else (build failure, miri missing) is not a verdict about the property
        let tail: Vec<&str> = err.lines().rev().take(3).collect();
        notes.push(format!("miri process over runs {from}..{to} ended with {:?}: {}", o.status.code(), tail.join(" | ")));
    }
    let status = if notes.is_empty() { "completed".to_string() } else { format!("incomplete: {}", notes.join("; ")) };
    (violation, json!({"status": status, "interpreted_runs": runs, "interpreted_operations": ops, "processes": procs, "flags": "-Zmiri-ignore-leaks (Stacked Borrows on)"}))
}

/// replay of a Miri-lane file: run exactly that trace under the interpreter
pub fn replay_miri(file: &std::path::Path) -> i32 {
    use std::process::Command;
    let o = Command::new("cargo")
        .args(["+nightly", "miri", "run", "--offline", "--manifest-path", &format!("{}/sim/Cargo.toml", verif_root()), "--", "exec", &file.to_string_lossy()])
        .env("MIRIFLAGS", "-Zmiri-ignore-leaks")
        .env("CARGO_NET_OFFLINE", "true")
        .env_remove("CARGO_TARGET_DIR")
        .output();
    match o {
        Ok(o) => {
            let err = String::from_utf8_lossy(&o.stderr);
            if err.contains("Undefined Behavior") {
                println!("violation class=miri-undefined-behavior : {}", err.lines().find(|l| l.contains("Undefined Behavior")).unwrap_or(""));
                1
            } else if o.status.success() {
                print!("{}", String::from_utf8_lossy(&o.stdout));
                if String::from_utf8_lossy(&o.stdout).contains("violation class=") { 1 } else { println!("no violation: the trace runs clean under Miri on the current tree"); 0 }
            } else {
                harness_error(&format!("miri replay failed: {}", err.lines().rev().take(3).collect::<Vec<_>>().join(" | ")))
            }
        }
        Err(e) => harness_error(&format!("cannot start cargo miri: {e}")),
    }
}
