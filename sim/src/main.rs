#[macro_use]
mod gen;
#[macro_use]
mod world;
mod alloc;
mod driver;
mod elem;
mod exec;
mod g_bx;
mod g_collect;
mod g_conv;
mod g_iter1;
mod g_iter2;
mod g_map;
mod g_misc;
mod g_new;
mod g_seq;
mod g_serde;
mod g_wide;
mod g_zip;
mod lanes;
mod ledger;
mod ops;
mod props;
mod rng;
mod run;

use std::path::Path;
use std::sync::atomic::Ordering::Relaxed;

#[global_allocator]
static GLOBAL: alloc::SimAlloc = alloc::SimAlloc;

fn install_hook() {
    std::panic::set_hook(Box::new(|info| {
        let _g = alloc::enter(alloc::Ctx::Infra);
        if info.payload().downcast_ref::<ledger::SimPanic>().is_some() {
            return;
        }
        let msg = if let Some(s) = info.payload().downcast_ref::<&'static str>() {
            s.to_string()
        } else if let Some(s) = info.payload().downcast_ref::<String>() {
            s.clone()
        } else {
            "<non-string panic>".to_string()
        };
        let loc = info.location().map(|l| format!(" at {}:{}", l.file(), l.line())).unwrap_or_default();
        if std::env::var_os("GASIM_VERBOSE").is_some() {
            eprintln!("[panic] {msg}{loc}");
        }
        // keep the last message where the SIGABRT handler can find it without allocating
        let full = format!("{msg}{loc}");
        unsafe {
            let b = full.as_bytes();
            let n = b.len().min(LAST_MSG_CAP);
            let dst = std::ptr::addr_of_mut!(LAST_MSG) as *mut u8;
            std::ptr::copy_nonoverlapping(b.as_ptr(), dst, n);
            LAST_MSG_LEN.store(n, Relaxed);
        }
        ledger::set_panic_msg(full);
    }));
    if !cfg!(miri) {
        unsafe {
            libc::signal(libc::SIGABRT, on_abort as *const () as usize);
        }
    }
}

const HARNESS_STACK: usize = 2 << 30;
const LAST_MSG_CAP: usize = 600;
static mut LAST_MSG: [u8; LAST_MSG_CAP] = [0; LAST_MSG_CAP];
static LAST_MSG_LEN: std::sync::atomic::AtomicUsize = std::sync::atomic::AtomicUsize::new(0);

/// a non-unwinding panic (unsafe-precondition check, panic in a nounwind frame) ends in abort():
/// print the last panic message so that the parent can classify the death
extern "C" fn on_abort(_sig: libc::c_int) {
    unsafe {
        let n = LAST_MSG_LEN.load(Relaxed);
        if n > 0 {
            let pre = b"\n[last panic before abort] ";
            libc::write(2, pre.as_ptr() as *const libc::c_void, pre.len());
            libc::write(2, std::ptr::addr_of!(LAST_MSG) as *const libc::c_void, n);
            libc::write(2, b"\n".as_ptr() as *const libc::c_void, 1);
        }
        libc::signal(libc::SIGABRT, libc::SIG_DFL);
        libc::raise(libc::SIGABRT);
    }
}

fn load_trace(p: &str) -> run::Trace {
    let v: serde_json::Value = serde_json::from_slice(&std::fs::read(p).unwrap_or_else(|e| driver::harness_error(&format!("{p}: {e}")))).unwrap_or_else(|e| driver::harness_error(&format!("{p}: {e}")));
    run::trace_from_json(&v).unwrap_or_else(|e| driver::harness_error(&e))
}

fn real_main(args: &[String]) -> i32 {
    match args.get(1).map(|s| s.as_str()) {
        Some("check") => {
            let prop = ops::Prop::from_name(args.get(2).map(|s| s.as_str()).unwrap_or("")).unwrap_or_else(|| driver::harness_error("unknown property"));
            match args.get(3).map(|s| s.as_str()) {
                Some("--replay") => driver::replay_cmd(Path::new(args.get(4).unwrap_or_else(|| driver::harness_error("--replay needs a file")))),
                Some(t @ ("quick" | "thorough")) => driver::check(prop, t),
                None => driver::check(prop, &std::env::var("VERIF_TIER").unwrap_or_else(|_| "quick".into())),
                _ => driver::harness_error("usage: gasim check <Cxx> quick|thorough|--replay <file>"),
            }
        }
        Some("worker") => {
            let prop = ops::Prop::from_name(&args[2]).unwrap();
            let base: u64 = args[3].parse().unwrap();
            let from: u64 = args[4].parse().unwrap();
            let to: u64 = args[5].parse().unwrap();
            let samples: usize = args[7].parse().unwrap();
            let known: Vec<String> = args.get(8).map(|s| s.split('|').filter(|x| !x.is_empty()).map(|x| x.to_string()).collect()).unwrap_or_default();
            driver::worker(prop, base, from, to, Path::new(&args[6]), &known, samples);
            0
        }
        Some("minimise") => {
            driver::minimise_cmd(Path::new(&args[2]), Path::new(&args[3]));
            0
        }
        Some("replay") => driver::replay_cmd(Path::new(&args[2])),
        Some("exec") => {
            let t = load_trace(&args[2]);
            let r = run::run_trace(&t, false);
            if let Some(v) = r.violation {
                println!("violation class={} at_op={} ({}): {}", v.class, v.at_op, v.op_name, v.detail);
            }
            0
        }
        Some("determinism") => driver::determinism_cmd(args.get(2).and_then(|s| s.parse().ok()).unwrap_or(20_000)),
        Some("alloccount") => {
            let t = load_trace(&args[2]);
            run::ALLOC_FAIL_LAST.store(-1, Relaxed);
            let r = run::run_trace(&t, false);
            println!("LIBALLOCS={}", run::LAST_OP_LIB_ALLOCS.load(Relaxed));
            if r.violation.is_some() {
                // violations of the fault-free execution are the business of the main batch
            }
            0
        }
        Some("allocfail") => {
            let t = load_trace(&args[2]);
            let j: i64 = args[3].parse().unwrap();
            run::ALLOC_FAIL_LAST.store(j, Relaxed);
            let r = run::run_trace(&t, false);
            println!("FIRED={}", run::LAST_OP_FAILS_FIRED.load(Relaxed));
            if let Some(v) = r.violation {
                if run::LAST_OP_FAILS_FIRED.load(Relaxed) > 0 {
                    println!("violation class={} at_op={} ({}): {}", v.class, v.at_op, v.op_name, v.detail);
                    return 5;
                }
            }
            0
        }
        Some("miri-runs") => {
            // in-process batch for the Miri lane: no child processes, progress markers on stdout
            use std::io::Write;
            let prop = ops::Prop::from_name(&args[2]).expect("prop");
            let base: u64 = args[3].parse().unwrap();
            let from: u64 = args[4].parse().unwrap();
            let to: u64 = args[5].parse().unwrap();
            let mut ops = 0u64;
            for i in from..to {
                println!("RUN {i}");
                let _ = std::io::stdout().flush();
                let seed = rng::run_seed(base, prop.num() ^ 0x4D49_5249, i);
                let mut t = props::gen_trace(prop, seed);
                // keep interpreted runs short
                t.ops.truncate(24);
                let r = run::run_trace(&t, false);
                ops += r.ops_executed;
                if let Some(v) = r.violation {
                    println!("MIRI-VIOLATION {}", serde_json::to_string(&driver::replay_json(&t, &v, r.hash, t.ops.len(), 0)).unwrap());
                    return 1;
                }
            }
            println!("MIRI-OK runs={} ops={ops}", to - from);
            0
        }
        Some("run") => {
            let prop = ops::Prop::from_name(&args[2]).expect("prop");
            let n: u64 = args[3].parse().unwrap();
            let base: u64 = args.get(4).map(|s| s.parse().unwrap()).unwrap_or(1);
            let t0 = std::time::Instant::now();
            let mut ops = 0u64;
            let mut noop = 0u64;
            for i in 0..n {
                let seed = rng::run_seed(base, prop.num(), i);
                let t = props::gen_trace(prop, seed);
                let r = run::run_trace(&t, false);
                ops += r.ops_executed;
                noop += r.ops_noop;
                if let Some(v) = r.violation {
                    println!("run {i} seed {seed}: {} at op {} ({}): {}", v.class, v.at_op, v.op_name, v.detail);
                    println!("{}", serde_json::to_string(&run::trace_to_json(&t)).unwrap());
                    return 1;
                }
            }
            println!("ok {n} runs, {ops} ops ({noop} no-op) in {:?}", t0.elapsed());
            0
        }
        _ => {
            eprintln!("usage: gasim check <Cxx> quick|thorough | check <Cxx> --replay <file> | replay <file>");
            2
        }
    }
}

fn main() {
    install_hook();
    let args: Vec<String> = std::env::args().collect();
    // a panic that escapes to here is a bug in the harness, never a violation
    let body = move || match std::panic::catch_unwind(|| real_main(&args)) {
        Ok(c) => c,
        Err(_) => {
            eprintln!("HARNESS-ERROR internal panic: {}", ledger::take_panic_msg().unwrap_or_default());
            2
        }
    };
    // The unoptimised executors keep one stack slot per length arm of their dispatch `match`, so a
    // frame that handles 4096-element arrays of 32-byte elements by value is tens of MiB: everything
    // runs on a thread with a large (lazily committed) stack. The small-stack environment of C15 is
    // a separate binary (stacklane) and is not affected.
    let code = if cfg!(miri) {
        body()
    } else {
        std::thread::Builder::new().stack_size(HARNESS_STACK).spawn(body).expect("spawn").join().unwrap_or(2)
    };
    std::process::exit(code);
}
