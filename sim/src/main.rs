fn main() { println!("gasim"); }
