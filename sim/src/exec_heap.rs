//! Executors: collecting from scripted sources (C07) and heap interop (C15/C16).

use crate::alloc::{self, enter, Ctx};
use crate::elem::Elem;
use crate::gen::*;
use crate::ledger::{self, Seam};
use crate::ops::*;
use crate::world::*;
use crate::exec::pick_len;
use generic_array::functional::FunctionalSequence;
use generic_array::sequence::*;
use generic_array::typenum::Unsigned;
use generic_array::{box_arr, GenericArray};
use std::marker::PhantomData;

fn infra<R>(f: impl FnOnce() -> R) -> R {
    let _g = enter(Ctx::Infra);
    f()
}

pub struct SrcStats {
    pub polls: u32,
    pub after_none: u32,
    pub produced: Vec<u32>,
    pub none_seen: bool,
}

/// The adversarial source iterator: the simulator decides how many items exist, what the
/// hint claims and whether `None` is sticky.
pub struct Src<'a, E> {
    st: &'a mut SrcStats,
    remaining: usize,
    unfused: bool,
    policy: u32,
    extra: usize,
    n: usize,
    total: usize,
    _p: PhantomData<E>,
}

pub const N_HINT_POLICIES: u32 = 8;
pub const HINT_NAMES: [&str; 8] = [
    "exact",
    "absent",
    "loose-truthful",
    "lying-low-upper",
    "lying-high-lower",
    "zero-to-max",
    "lower-only",
    "claims-exactly-N",
];

/// `r` = items left before the first None, `n` = the array length the collector wants,
/// `total` = items the source had at the start
pub fn hint(policy: u32, x: usize, r: usize, n: usize, total: usize) -> (usize, Option<usize>) {
    match policy % N_HINT_POLICIES {
        // claims exactly N whatever it holds (an ExactSizeIterator-looking liar): N minus what it already gave
        7 => {
            let given = total - r.min(total);
            (n.saturating_sub(given), Some(n.saturating_sub(given)))
        }
        0 => (r, Some(r)),
        1 => (0, None),
        2 => (r.saturating_sub(x), Some(r + x)),
        3 => (0, Some(r.saturating_sub(1 + x))),
        4 => (r + 1 + x, None),
        5 => (0, Some(usize::MAX)),
        _ => (r.min(x), None),
    }
}

impl<'a, E: Elem> Iterator for Src<'a, E> {
    type Item = E;
    fn next(&mut self) -> Option<E> {
        let _g = enter(Ctx::Work);
        ledger::tick(Seam::SrcNext);
        self.st.polls += 1;
        let produce = if self.st.none_seen {
            self.st.after_none += 1;
            self.unfused
        } else if self.remaining > 0 {
            self.remaining -= 1;
            true
        } else {
            self.st.none_seen = true;
            false
        };
        if produce {
            let e = E::make();
            let id = e.observe(950);
            infra(|| self.st.produced.push(id));
            Some(e)
        } else {
            None
        }
    }
    fn size_hint(&self) -> (usize, Option<usize>) {
        hint(self.policy, self.extra, self.remaining, self.n, self.total)
    }
}

enum Got<E> {
    Arr(Arr<E>),
    Bx(Bx<E>),
    LenErr,
}

impl<E: Elem> World<E> {
    pub fn apply_heap(&mut self, cx: &mut Cx, op: &Op) {
        let a = op.args;
        match op.kind {
            OpKind::ArrToVec => self.op_arr_to_vec(cx, a),
            OpKind::ArrBox => self.op_arr_box(cx, a),
            OpKind::Unbox => self.op_unbox(cx, a),
            OpKind::VecMake => self.op_vec_make(cx, a),
            OpKind::VecToArr => self.op_vec_to_arr(cx, a),
            OpKind::VecToBx => self.op_vec_to_bx(cx, a),
            OpKind::BxToVec => self.op_bx_to_vec(cx, a),
            OpKind::BoxedGenerate => self.op_boxed_generate(cx, a),
            OpKind::DefaultBoxed => self.op_default_boxed(cx, a),
            OpKind::BxClone => self.op_bx_clone(cx, a),
            OpKind::BxIntoIter => self.op_bx_into_iter(cx, a),
            OpKind::VitNext => self.op_vit_next(cx, a),
            OpKind::BoxArrMacro => self.op_box_arr_macro(cx, a),
            _ => unreachable!(),
        }
    }

    // ---- C07: collect from a scripted source -----------------------------------

    pub fn op_collect(&mut self, cx: &mut Cx, a: [u32; N_ARGS]) {
        let li = lens_idx(a[0]);
        let n = LENS[li];
        // count of items before the first None: 0..=N+3
        let c = a[1] as usize % (n + 4);
        let policy = a[2] % N_HINT_POLICIES;
        let unfused = a[3] & 1 == 1;
        let entry = (a[3] >> 1) % 6;
        let extra = a[4] as usize % 4;
        let (lo, hi) = hint(policy, extra, c, n, c);
        let rules_out = lo > n || hi.map_or(false, |h| h < n);
        let expect_ok = !rules_out && c == n;
        let mut st = SrcStats {
            polls: 0,
            after_none: 0,
            produced: infra(Vec::new),
            none_seen: false,
        };
        let r = with_len!(li; N => {
            let src = Src::<E> { st: &mut st, remaining: c, unfused, policy, extra, n, total: c, _p: PhantomData };
            lib(move || match entry {
                0 => match GenericArray::<E, N>::try_from_iter(src) { Ok(x) => Got::Arr(Arr::from(x)), Err(_) => Got::LenErr },
                1 => Got::Arr(Arr::from(<GenericArray<E, N> as core::iter::FromIterator<E>>::from_iter(src))),
                2 => Got::Arr(Arr::from(src.collect::<GenericArray<E, N>>())),
                3 => match GenericArray::<E, N>::try_boxed_from_iter(src) { Ok(x) => Got::Bx(Bx::from(x)), Err(_) => Got::LenErr },
                4 => Got::Bx(Bx::from(<Box<GenericArray<E, N>> as core::iter::FromIterator<E>>::from_iter(src))),
                _ => Got::Bx(Bx::from(src.collect::<Box<GenericArray<E, N>>>())),
            })
        });
        let fired_src = infra(|| ledger::fired().iter().any(|f| f.0 == Seam::SrcNext));
        let lenclass = if c < n { 0 } else if c == n { 1 } else { 2 };
        cx.cov(&[OpKind::Collect as u64, entry as u64, n as u64, (c as i64 - n as i64 + 8) as u64, policy as u64, unfused as u64, fired_src as u64, if fired_src { st.polls as u64 } else { 0 }]);
        let _ = lenclass;
        if unfused && st.none_seen {
            cx.probe("un-fused source reached its first None");
        }
        if rules_out {
            cx.probe("size_hint rules N out");
        }
        let panics_on_mismatch = matches!(entry, 1 | 2 | 4 | 5);
        let what = ["try_from_iter", "from_iter", "collect", "try_boxed_from_iter", "Box from_iter", "collect into Box"][entry as usize];
        let c07 = cx.checks.c07;
        match r {
            Ok(Got::LenErr) => {
                if c07 && expect_ok {
                    fail("C07-right-length-rejected", format!("{what}::<{n}> returned LengthError for a source that produced exactly {n} items with hint ({lo}, {hi:?})"));
                }
            }
            Ok(got) => {
                if c07 && !expect_ok {
                    fail("C07-wrong-length-accepted", format!("{what}::<{n}> returned an array for a source with {c} items before its first None and hint ({lo}, {hi:?})"));
                }
                let ids = match &got {
                    Got::Arr(x) => with_arr!(x; y, N => { let _ = N::USIZE; ids_of(y.as_slice(), 951) }),
                    Got::Bx(x) => with_bx!(x; y, N => { let _ = N::USIZE; ids_of(y.as_slice(), 951) }),
                    Got::LenErr => unreachable!(),
                };
                if c07 && E::HAS_ID && (ids.len() > st.produced.len() || ids[..] != st.produced[..ids.len()]) {
                    fail("C07-order", format!("{what}::<{n}> returned {ids:?}, the source produced {:?}", st.produced));
                }
                match got {
                    Got::Arr(x) => self.put_arr(cx, x),
                    Got::Bx(x) => self.put_bx(cx, x),
                    Got::LenErr => {}
                }
            }
            Err(Panicked::Injected(_)) => {
                cx.lib_panics_injected += 1;
                cx.op_panicked = true;
                cx.probe("source iterator panicked");
            }
            Err(Panicked::Other(msg)) => {
                cx.op_panicked = true;
                let documented = panics_on_mismatch && infra(|| msg.contains(&format!("expected {n} items")));
                if !documented {
                    fail("unexpected-panic", format!("{what}::<{n}>: the library panicked on its own: {msg}"));
                } else if c07 && expect_ok {
                    fail("C07-right-length-rejected", format!("{what}::<{n}> panicked ({msg}) for a source that produced exactly {n} items with hint ({lo}, {hi:?})"));
                }
            }
        }
        if c07 {
            if st.after_none > 0 {
                fail("C07-polled-after-none", format!("{what}::<{n}> polled the source {} more time(s) after it had returned None (count {c}, hint ({lo}, {hi:?}))", st.after_none));
            }
            if st.produced.len() > n + 1 {
                fail("C07-pulled-too-many", format!("{what}::<{n}> pulled {} items (at most {} allowed)", st.produced.len(), n + 1));
            }
        }
    }

    // ---- plain conversions ---------------------------------------------------------

    fn check_same_ids(&self, cx: &Cx, what: &str, before: &[u32], after: &[u32]) {
        if cx.checks.c15 && E::HAS_ID && before != after {
            fail("C15-contents", format!("{what}: source held {before:?}, result holds {after:?}"));
        }
        if cx.checks.c15 && !E::HAS_ID && before.len() != after.len() {
            fail("C15-contents", format!("{what}: source held {} elements, result holds {}", before.len(), after.len()));
        }
    }

    fn op_arr_to_vec(&mut self, cx: &mut Cx, a: [u32; N_ARGS]) {
        let Some(i) = pick_len(self.arrs.len(), a[0]) else { cx.ops_noop += 1; return };
        let arr = self.arrs.remove(i);
        let n = arr.len();
        let boxed = a[1] % 2 == 1;
        let before = with_arr!(&arr; x, N => { let _ = N::USIZE; ids_of(x.as_slice(), 952) });
        let r = with_arr!(arr; x, N => { let _ = N::USIZE; lib(move || if boxed { VecObj::B(Box::<[E]>::from(x)) } else { VecObj::V(Vec::<E>::from(x)) }) });
        cx.cov(&[OpKind::ArrToVec as u64, n as u64, boxed as u64]);
        match r {
            Ok(v) => {
                let after = ids_of(v.as_slice(), 953);
                self.check_same_ids(cx, "GenericArray -> Vec/Box<[T]>", &before, &after);
                self.put_vec(cx, v);
            }
            Err(p) => on_panic(cx, "From<GenericArray> for Vec/Box<[T]>", p),
        }
    }

    fn op_arr_box(&mut self, cx: &mut Cx, a: [u32; N_ARGS]) {
        let Some(i) = pick_len(self.arrs.len(), a[0]) else { cx.ops_noop += 1; return };
        let arr = self.arrs.remove(i);
        let b = with_arr!(arr; x, N => { let _ = N::USIZE; let _g = enter(Ctx::Work); Bx::from(Box::new(x)) });
        self.put_bx(cx, b);
    }

    fn op_unbox(&mut self, cx: &mut Cx, a: [u32; N_ARGS]) {
        let Some(i) = pick_len(self.bxs.len(), a[0]) else { cx.ops_noop += 1; return };
        let b = self.bxs.remove(i);
        let arr = with_bx!(b; x, N => { let _ = N::USIZE; let _g = enter(Ctx::Work); Arr::from(*x) });
        self.put_arr(cx, arr);
    }

    fn op_vec_make(&mut self, cx: &mut Cx, a: [u32; N_ARGS]) {
        let base = LENS[lens_idx(a[0])];
        let l = match a[3] % 4 {
            2 => base + 1,
            3 => base.saturating_sub(1),
            _ => base,
        };
        let spare = a[1] as usize % 4;
        let boxed = a[2] % 2 == 1;
        let v = {
            let _g = enter(Ctx::Work);
            let mut v: Vec<E> = Vec::with_capacity(l + if boxed { 0 } else { spare });
            for _ in 0..l {
                v.push(E::make());
            }
            if boxed {
                VecObj::B(v.into_boxed_slice())
            } else {
                VecObj::V(v)
            }
        };
        self.put_vec(cx, v);
    }

    fn target_len(&self, l: usize, mode: u32, len_arg: u32) -> usize {
        match LENS.iter().position(|&x| x == l) {
            Some(li) if mode % 4 != 3 => li,
            _ => lens_idx(len_arg),
        }
    }

    fn op_vec_to_arr(&mut self, cx: &mut Cx, a: [u32; N_ARGS]) {
        let Some(i) = pick_len(self.vecs.len(), a[0]) else { cx.ops_noop += 1; return };
        let v = self.vecs.remove(i);
        let l = v.as_slice().len();
        let li = self.target_len(l, a[1], a[2]);
        let n = LENS[li];
        let before = ids_of(v.as_slice(), 954);
        let is_box = matches!(v, VecObj::B(_));
        let r = with_len!(li; N => lib(move || match v {
            VecObj::V(v) => GenericArray::<E, N>::try_from(v).map(Arr::from),
            VecObj::B(b) => GenericArray::<E, N>::try_from(b).map(Arr::from),
        }));
        cx.cov(&[OpKind::VecToArr as u64, n as u64, ((l as i64 - n as i64).clamp(-2, 2) + 2) as u64, is_box as u64]);
        match r {
            Ok(Ok(arr)) => {
                if cx.checks.c15 && l != n {
                    fail("C15-wrong-length-accepted", format!("TryFrom<Vec/Box<[T]>> for GenericArray<_, {n}> accepted a source of length {l}"));
                }
                let after = with_arr!(&arr; x, N => { let _ = N::USIZE; ids_of(x.as_slice(), 955) });
                self.check_same_ids(cx, "Vec/Box<[T]> -> GenericArray", &before, &after);
                self.put_arr(cx, arr);
            }
            Ok(Err(_)) => {
                if cx.checks.c15 && l == n {
                    fail("C15-right-length-rejected", format!("TryFrom<Vec/Box<[T]>> for GenericArray<_, {n}> rejected a source of length {l}"));
                }
                cx.probe("heap conversion rejected for wrong length");
            }
            Err(p) => on_panic(cx, "TryFrom<Vec/Box<[T]>> for GenericArray", p),
        }
    }

    fn op_vec_to_bx(&mut self, cx: &mut Cx, a: [u32; N_ARGS]) {
        let Some(i) = pick_len(self.vecs.len(), a[0]) else { cx.ops_noop += 1; return };
        let v = self.vecs.remove(i);
        let l = v.as_slice().len();
        let li = self.target_len(l, a[1], a[2]);
        let n = LENS[li];
        let before = ids_of(v.as_slice(), 956);
        let (is_box, tight) = match &v {
            VecObj::B(_) => (true, true),
            VecObj::V(v) => (false, v.capacity() == v.len()),
        };
        let src_addr = v.as_slice().as_ptr() as usize;
        let block_nonzero = core::mem::size_of::<E>() != 0 && l != 0;
        let mut ev = (0u64, 0u64);
        let r = with_len!(li; N => lib(|| {
            ev.0 = alloc::events();
            let r = match v {
                VecObj::V(v) => GenericArray::<E, N>::try_from_vec(v).map(Bx::from),
                VecObj::B(b) => GenericArray::<E, N>::try_from_boxed_slice(b).map(Bx::from),
            };
            ev.1 = alloc::events();
            r
        }));
        cx.cov(&[OpKind::VecToBx as u64, n as u64, ((l as i64 - n as i64).clamp(-2, 2) + 2) as u64, is_box as u64, tight as u64]);
        match r {
            Ok(Ok(bx)) => {
                if cx.checks.c15 && l != n {
                    fail("C15-wrong-length-accepted", format!("try_from_vec/try_from_boxed_slice::<{n}> accepted a source of length {l}"));
                }
                let (after, dst_addr) = with_bx!(&bx; x, N => { let _ = N::USIZE; (ids_of(x.as_slice(), 957), x.as_slice().as_ptr() as usize) });
                self.check_same_ids(cx, "Vec/Box<[T]> -> Box<GenericArray>", &before, &after);
                if cx.checks.c15 && tight && l == n {
                    if ev.1 != ev.0 {
                        fail("C15-not-o1", format!("try_from_{}::<{n}> made {} allocator call(s); it is documented to hand over the same block", if is_box { "boxed_slice" } else { "vec (len == capacity)" }, ev.1 - ev.0));
                    } else if block_nonzero && dst_addr != src_addr {
                        fail("C15-not-o1", format!("try_from_{}::<{n}> returned a different block than it was given", if is_box { "boxed_slice" } else { "vec" }));
                    }
                    cx.probe("O(1) conversion checked for allocator silence");
                }
                self.put_bx(cx, bx);
            }
            Ok(Err(_)) => {
                if cx.checks.c15 && l == n {
                    fail("C15-right-length-rejected", format!("try_from_vec/try_from_boxed_slice::<{n}> rejected a source of length {l}"));
                }
                cx.probe("heap conversion rejected for wrong length");
            }
            Err(p) => on_panic(cx, "try_from_vec/try_from_boxed_slice", p),
        }
    }

    fn op_bx_to_vec(&mut self, cx: &mut Cx, a: [u32; N_ARGS]) {
        let Some(i) = pick_len(self.bxs.len(), a[0]) else { cx.ops_noop += 1; return };
        let b = self.bxs.remove(i);
        let n = b.len();
        let boxed = a[1] % 2 == 1;
        let (before, src_addr) = with_bx!(&b; x, N => { let _ = N::USIZE; (ids_of(x.as_slice(), 958), x.as_slice().as_ptr() as usize) });
        let block_nonzero = core::mem::size_of::<E>() != 0 && n != 0;
        let mut ev = (0u64, 0u64);
        let r = with_bx!(b; x, N => { let _ = N::USIZE; lib(|| {
            ev.0 = alloc::events();
            let r = if boxed { VecObj::B(GenericArray::into_boxed_slice(x)) } else { VecObj::V(GenericArray::into_vec(x)) };
            ev.1 = alloc::events();
            r
        }) });
        cx.cov(&[OpKind::BxToVec as u64, n as u64, boxed as u64]);
        match r {
            Ok(v) => {
                let after = ids_of(v.as_slice(), 959);
                self.check_same_ids(cx, "Box<GenericArray> -> Vec/Box<[T]>", &before, &after);
                if cx.checks.c15 {
                    if ev.1 != ev.0 {
                        fail("C15-not-o1", format!("{}::<{n}> made {} allocator call(s); it is documented to hand over the same block", if boxed { "into_boxed_slice" } else { "into_vec" }, ev.1 - ev.0));
                    } else if block_nonzero && v.as_slice().as_ptr() as usize != src_addr {
                        fail("C15-not-o1", format!("{}::<{n}> returned a different block than it was given", if boxed { "into_boxed_slice" } else { "into_vec" }));
                    }
                    cx.probe("O(1) conversion checked for allocator silence");
                }
                self.put_vec(cx, v);
            }
            Err(p) => on_panic(cx, "into_vec/into_boxed_slice", p),
        }
    }

    fn op_boxed_generate(&mut self, cx: &mut Cx, a: [u32; N_ARGS]) {
        let li = lens_idx(a[0]);
        let n = LENS[li];
        let mut cb = Cb::<E>::new(0);
        let mut idxs: Vec<usize> = infra(Vec::new);
        let r = with_len!(li; N => {
            let f = |i: usize| {
                let _g = enter(Ctx::Work);
                ledger::tick(Seam::Closure);
                infra(|| idxs.push(i));
                cb.calls += 1;
                let e = E::make();
                cb.out(e)
            };
            lib(|| Bx::from(<Box<GenericArray<E, N>> as GenericSequence<E>>::generate(f)))
        });
        let want: Vec<usize> = infra(|| (0..n).collect());
        if n == 0 {
            cx.probe("zero-length boxed generate");
        }
        cx.cov(&[OpKind::BoxedGenerate as u64, n as u64, r.is_err() as u64, if r.is_err() { idxs.len() as u64 } else { 0 }]);
        match r {
            Ok(bx) => {
                if cx.checks.c08 {
                    if idxs != want {
                        fail("C08-generate-calls", format!("boxed generate::<{n}> called its function with {idxs:?}, expected 0..{n} in ascending order"));
                    }
                    let got = with_bx!(&bx; x, N => { let _ = N::USIZE; ids_of(x.as_slice(), 960) });
                    if E::HAS_ID && got != cb.outs {
                        fail("C08-generate-result", format!("boxed generate::<{n}>: result holds {got:?} but call i returned {:?}", cb.outs));
                    }
                }
                self.put_bx(cx, bx);
            }
            Err(p) => {
                if cx.checks.c08 && !(idxs.len() <= n && idxs[..] == want[..idxs.len()]) {
                    fail("C08-generate-calls", format!("boxed generate::<{n}> called its function with {idxs:?} before the panic"));
                }
                on_panic(cx, "boxed generate", p)
            }
        }
    }

    fn op_default_boxed(&mut self, cx: &mut Cx, a: [u32; N_ARGS]) {
        let li = lens_idx(a[0]);
        let n = LENS[li];
        ledger::with(|s| s.clones.clear());
        let r = with_len!(li; N => lib(|| Bx::from(GenericArray::<E, N>::default_boxed())));
        let calls = ledger::seam_count(Seam::Default) as usize;
        cx.cov(&[OpKind::DefaultBoxed as u64, n as u64, r.is_err() as u64, if r.is_err() { calls as u64 } else { 0 }]);
        match r {
            Ok(bx) => {
                if cx.checks.c08 && calls != n {
                    fail("C08-default-calls", format!("default_boxed for length {n} called the element's default {calls} times"));
                }
                if cx.checks.c08 && E::HAS_ID {
                    let made: Vec<u32> = ledger::with(|s| s.clones.iter().filter(|c| c.0 == u32::MAX).map(|c| c.1).collect());
                    let got = with_bx!(&bx; x, N => { let _ = N::USIZE; ids_of(x.as_slice(), 930) });
                    if got != made {
                        fail("C08-default-order", format!("default_boxed for length {n}: calls produced {made:?} in that order, the array holds {got:?}"));
                    }
                }
                self.put_bx(cx, bx);
            }
            Err(p) => on_panic(cx, "default_boxed", p),
        }
    }

    fn op_bx_clone(&mut self, cx: &mut Cx, a: [u32; N_ARGS]) {
        let Some(i) = pick_len(self.bxs.len(), a[0]) else { cx.ops_noop += 1; return };
        let n = self.bxs[i].len();
        let r = with_bx!(&self.bxs[i]; x, N => { let _ = N::USIZE; lib(|| Bx::from(x.clone())) });
        cx.cov(&[OpKind::BxClone as u64, n as u64, r.is_err() as u64]);
        match r {
            Ok(bx) => self.put_bx(cx, bx),
            Err(p) => on_panic(cx, "Box<GenericArray>::clone", p),
        }
    }

    fn op_bx_into_iter(&mut self, cx: &mut Cx, a: [u32; N_ARGS]) {
        let Some(i) = pick_len(self.bxs.len(), a[0]) else { cx.ops_noop += 1; return };
        let b = self.bxs.remove(i);
        let n = b.len();
        let before = with_bx!(&b; x, N => { let _ = N::USIZE; ids_of(x.as_slice(), 961) });
        let r = with_bx!(b; x, N => { let _ = N::USIZE; lib(move || x.into_iter()) });
        cx.cov(&[OpKind::BxIntoIter as u64, n as u64]);
        match r {
            Ok(it) => {
                let after = ids_of(it.as_slice(), 962);
                self.check_same_ids(cx, "Box<GenericArray>::into_iter", &before, &after);
                self.put_vit(cx, it)
            }
            Err(p) => on_panic(cx, "Box<GenericArray>::into_iter", p),
        }
    }

    fn op_vit_next(&mut self, cx: &mut Cx, a: [u32; N_ARGS]) {
        let Some(i) = pick_len(self.vits.len(), a[0]) else { cx.ops_noop += 1; return };
        let back = a[1] % 2 == 1;
        let it = &mut self.vits[i];
        let r = lib(|| if back { it.next_back() } else { it.next() });
        match r {
            Ok(Some(e)) => self.hand_back(cx, e, a[2]),
            Ok(None) => {}
            Err(p) => on_panic(cx, "vec::IntoIter::next", p),
        }
    }

    fn op_box_arr_macro(&mut self, cx: &mut Cx, a: [u32; N_ARGS]) {
        use generic_array::typenum::{U4, U7};
        let which = a[0] % 8;
        let mk = || {
            let _g = enter(Ctx::Work);
            E::make()
        };
        if which >= 6 {
            // the `[x; <usize expr>]` form with a plain Copy value (the form's own contract asks for no more)
            let r = lib(|| {
                let b = if which == 6 { box_arr![7u32; 6].to_vec() } else { box_arr![9u32; 1].to_vec() };
                b
            });
            cx.cov(&[OpKind::BoxArrMacro as u64, which as u64, r.is_err() as u64]);
            match r {
                Ok(v) => {
                    let want: Vec<u32> = if which == 6 { vec![7; 6] } else { vec![9; 1] };
                    if cx.checks.c15 && v != want {
                        fail("C15-contents", format!("box_arr![x; n] form {which} built {v:?}"));
                    }
                }
                Err(p) => on_panic(cx, "box_arr!", p),
            }
            return;
        }
        let r = lib(|| match which {
            0 => {
                let b: Box<GenericArray<E, generic_array::typenum::U0>> = box_arr![];
                Bx::from(b)
            }
            1 => Bx::from(box_arr![mk()]),
            2 => Bx::from(box_arr![mk(), mk(), mk()]),
            3 => Bx::from(box_arr![mk(), mk(), mk(), mk(), mk(),]),
            4 => Bx::from(box_arr![mk(); U4]),
            _ => Bx::from(box_arr![mk(); U7]),
        });
        cx.cov(&[OpKind::BoxArrMacro as u64, which as u64, r.is_err() as u64]);
        match r {
            Ok(bx) => {
                let want = [0, 1, 3, 5, 4, 7][which as usize];
                if cx.checks.c15 && bx.len() != want {
                    fail("C15-contents", format!("box_arr! form {which} built length {} instead of {want}", bx.len()));
                }
                self.put_bx(cx, bx)
            }
            Err(p) => on_panic(cx, "box_arr!", p),
        }
    }

    // ---- boxed functional forms --------------------------------------------------

    pub fn op_bx_map(&mut self, cx: &mut Cx, a: [u32; N_ARGS]) {
        let Some(i) = pick_len(self.bxs.len(), a[0]) else { cx.ops_noop += 1; return };
        let b = self.bxs.remove(i);
        let n = b.len();
        let mut cb = Cb::<E>::new(a[1]);
        let pre = with_bx!(&b; x, N => { let _ = N::USIZE; ids_of(x.as_slice(), 963) });
        let want: Vec<(u32, u32)> = infra(|| pre.iter().map(|&id| (id, 0)).collect());
        let r = with_bx!(b; x, N => { let _ = N::USIZE; lib(|| Bx::from(FunctionalSequence::map(x, |e: E| map_cb(&mut cb, e)))) });
        cx.cov(&[OpKind::Map as u64, n as u64, 3, r.is_err() as u64, cb.calls as u64 * r.is_err() as u64]);
        match r {
            Ok(bx) => {
                let got = with_bx!(&bx; x, N => { let _ = N::USIZE; ids_of(x.as_slice(), 964) });
                self.check_cb_c08(cx, "boxed map", &cb, &want, Some(got));
                self.put_bx(cx, bx);
            }
            Err(p) => {
                self.check_cb_c08(cx, "boxed map", &cb, &want, None);
                on_panic(cx, "boxed map", p);
            }
        }
        let stash = core::mem::take(&mut cb.stash);
        self.put_loose_all(cx, stash);
    }

    /// boxed map to a plain type of the same size but alignment 1 (an implementation that reuses
    /// the block must still release it with the layout it was requested with)
    pub fn op_bx_map_bytes(&mut self, cx: &mut Cx, a: [u32; N_ARGS]) {
        let Some(i) = pick_len(self.bxs.len(), a[0]) else { cx.ops_noop += 1; return };
        let b = self.bxs.remove(i);
        let n = b.len();
        let mut cb = Cb::<E>::new(a[1]);
        let r = with_bx!(b; x, N => { let _ = N::USIZE; lib(|| {
            let out: Box<GenericArray<E::Bytes, N>> = FunctionalSequence::map(x, |e: E| {
                let _g = enter(Ctx::Work);
                ledger::tick(Seam::Closure);
                let id = e.observe(910);
                cb.record(id, 0);
                if (cb.beh + cb.calls) % 2 == 0 { drop(e) } else { cb.keep(e) }
                cb.calls += 1;
                <E::Bytes as Default>::default()
            });
            out.len()
        }) });
        cx.cov(&[OpKind::Map as u64, n as u64, 6, r.is_err() as u64, cb.calls as u64 * r.is_err() as u64]);
        match r {
            Ok(len) => {
                if cx.checks.c08 && len != n {
                    fail("C08-result", format!("boxed map to bytes returned length {len} for {n}"));
                }
            }
            Err(p) => on_panic(cx, "boxed map (to bytes)", p),
        }
        let stash = core::mem::take(&mut cb.stash);
        self.put_loose_all(cx, stash);
    }

    pub fn op_bx_fold(&mut self, cx: &mut Cx, a: [u32; N_ARGS]) {
        let Some(i) = pick_len(self.bxs.len(), a[0]) else { cx.ops_noop += 1; return };
        let b = self.bxs.remove(i);
        let n = b.len();
        let mut cb = Cb::<E>::new(a[1]);
        let pre = with_bx!(&b; x, N => { let _ = N::USIZE; ids_of(x.as_slice(), 965) });
        let want = fold_expected(11, &pre);
        let init = Acc { token: 11, kept: infra(Vec::new) };
        let r = with_bx!(b; x, N => { let _ = N::USIZE; lib(|| FunctionalSequence::fold(x, init, |acc, e: E| fold_cb(&mut cb, acc, e))) });
        cx.cov(&[OpKind::Fold as u64, n as u64, 3, r.is_err() as u64, cb.calls as u64 * r.is_err() as u64]);
        match r {
            Ok(acc) => {
                if cx.checks.c08 {
                    if E::HAS_ID && cb.args != want {
                        fail("C08-call-order", format!("boxed fold: callback saw (element, accumulator) {:?}, expected {:?}", cb.args, want));
                    }
                    if !E::HAS_ID && cb.args.len() != n {
                        fail("C08-call-order", format!("boxed fold: callback was called {} times for length {n}", cb.args.len()));
                    }
                }
                let Acc { kept, .. } = acc;
                self.put_loose_all(cx, kept);
            }
            Err(p) => on_panic(cx, "boxed fold", p),
        }
        let stash = core::mem::take(&mut cb.stash);
        self.put_loose_all(cx, stash);
    }

    pub fn op_bx_zip(&mut self, cx: &mut Cx, a: [u32; N_ARGS]) {
        let Some(i) = pick_len(self.bxs.len(), a[0]) else { cx.ops_noop += 1; return };
        let n = self.bxs[i].len();
        let partners: Vec<usize> = infra(|| (0..self.bxs.len()).filter(|&j| j != i && self.bxs[j].len() == n).collect());
        let (xa, xb) = if let Some(pj) = pick_len(partners.len(), a[1]) {
            let j = partners[pj];
            let (hi, lo) = if i > j { (i, j) } else { (j, i) };
            let x_hi = self.bxs.remove(hi);
            let x_lo = self.bxs.remove(lo);
            if i > j { (x_hi, x_lo) } else { (x_lo, x_hi) }
        } else {
            let li = self.bxs[i].len_idx();
            let made = with_len!(li; N => lib(|| Bx::from(Box::new(GenericArray::<E, N>::generate(|_| { let _g = enter(Ctx::Work); E::make() })))));
            match made {
                Ok(p) => (self.bxs.remove(i), p),
                Err(p) => return on_panic(cx, "generate (partner)", p),
            }
        };
        let mut cb = Cb::<E>::new(a[2]);
        let ia = with_bx!(&xa; x, N => { let _ = N::USIZE; ids_of(x.as_slice(), 966) });
        let ib = with_bx!(&xb; x, N => { let _ = N::USIZE; ids_of(x.as_slice(), 967) });
        let want: Vec<(u32, u32)> = infra(|| ia.iter().copied().zip(ib.iter().copied()).collect());
        let r = with_bx_pair!((xa, xb); l, r, N => { let _ = N::USIZE; lib(|| Bx::from(FunctionalSequence::zip(l, r, |l: E, r: E| zip_cb(&mut cb, l, r)))) }; _o => unreachable!());
        cx.cov(&[OpKind::Zip as u64, n as u64, 9, r.is_err() as u64, cb.calls as u64 * r.is_err() as u64]);
        match r {
            Ok(bx) => {
                let got = with_bx!(&bx; x, N => { let _ = N::USIZE; ids_of(x.as_slice(), 968) });
                self.check_cb_c08(cx, "boxed zip", &cb, &want, Some(got));
                self.put_bx(cx, bx);
            }
            Err(p) => {
                self.check_cb_c08(cx, "boxed zip", &cb, &want, None);
                on_panic(cx, "boxed zip", p);
            }
        }
        let stash = core::mem::take(&mut cb.stash);
        self.put_loose_all(cx, stash);
    }
}
