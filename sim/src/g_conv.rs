//! generated split of the executors: one module per group so that each group gets its own codegen unit
#![allow(unused_imports)]
use crate::alloc::{self, enter, Ctx};
use crate::elem::Elem;
use crate::gen::*;
use crate::ledger::{self, Seam};
use crate::ops::*;
use crate::world::*;
use generic_array::functional::FunctionalSequence;
use generic_array::sequence::*;
use generic_array::typenum::Unsigned;
use generic_array::GenericArray;
#[allow(unused_imports)]
use std::collections::VecDeque;

#[allow(dead_code)]
fn infra<R>(f: impl FnOnce() -> R) -> R {
    let _g = enter(Ctx::Infra);
    f()
}
use crate::g_collect::*;
use generic_array::box_arr;
use crate::exec::{is_prefix, pick_len};

ops_group!(GConv);

impl<'a, E: Elem> GConv<'a, E> {
    pub fn check_same_ids(&self, cx: &Cx, what: &str, before: &[u32], after: &[u32]) {
        if cx.checks.c15 && E::HAS_ID && before != after {
            fail("C15-contents", format!("{what}: source held {before:?}, result holds {after:?}"));
        }
        if cx.checks.c15 && !E::HAS_ID && before.len() != after.len() {
            fail("C15-contents", format!("{what}: source held {} elements, result holds {}", before.len(), after.len()));
        }
    }

    pub fn op_arr_to_vec(&mut self, cx: &mut Cx, a: [u32; N_ARGS]) {
        let Some(i) = pick_len(self.arrs.len(), a[0]) else { cx.ops_noop += 1; return };
        let arr = self.arrs.remove(i);
        let n = arr.len();
        let boxed = a[1] % 2 == 1;
        let before = with_arr!(&arr; x, N => { let _ = N::USIZE; ids_of(x.as_slice(), 952) });
        let r = with_arr!(arr; x, N => { let _ = N::USIZE; lib(move || if boxed { VecObj::B(Box::<[E]>::from(x)) } else { VecObj::V(Vec::<E>::from(x)) }) });
        cx.cov(&[OpKind::ArrToVec as u64, n as u64, boxed as u64]);
        match r {
            Ok(v) => {
                let after = ids_of(v.as_slice(), 953);
                self.check_same_ids(cx, "GenericArray -> Vec/Box<[T]>", &before, &after);
                self.put_vec(cx, v);
            }
            Err(p) => on_panic(cx, "From<GenericArray> for Vec/Box<[T]>", p),
        }
    }

    pub fn op_arr_box(&mut self, cx: &mut Cx, a: [u32; N_ARGS]) {
        let Some(i) = pick_len(self.arrs.len(), a[0]) else { cx.ops_noop += 1; return };
        let arr = self.arrs.remove(i);
        let b = with_arr!(arr; x, N => { let _ = N::USIZE; let _g = enter(Ctx::Work); Bx::from(Box::new(x)) });
        self.put_bx(cx, b);
    }

    pub fn op_unbox(&mut self, cx: &mut Cx, a: [u32; N_ARGS]) {
        let Some(i) = pick_len(self.bxs.len(), a[0]) else { cx.ops_noop += 1; return };
        let b = self.bxs.remove(i);
        let arr = with_bx!(b; x, N => { let _ = N::USIZE; let _g = enter(Ctx::Work); Arr::from(*x) });
        self.put_arr(cx, arr);
    }

    pub fn op_vec_make(&mut self, cx: &mut Cx, a: [u32; N_ARGS]) {
        let base = LENS[lens_idx(a[0])];
        let l = match a[3] % 4 {
            2 => base + 1,
            3 => base.saturating_sub(1),
            _ => base,
        };
        let spare = a[1] as usize % 4;
        let boxed = a[2] % 2 == 1;
        let v = {
            let _g = enter(Ctx::Work);
            let mut v: Vec<E> = Vec::with_capacity(l + if boxed { 0 } else { spare });
            for _ in 0..l {
                v.push(E::make());
            }
            if boxed {
                VecObj::B(v.into_boxed_slice())
            } else {
                VecObj::V(v)
            }
        };
        self.put_vec(cx, v);
    }

    pub fn target_len(&self, l: usize, mode: u32, len_arg: u32) -> usize {
        match LENS.iter().position(|&x| x == l) {
            Some(li) if mode % 4 != 3 => li,
            _ => lens_idx(len_arg),
        }
    }

    pub fn op_vec_to_arr(&mut self, cx: &mut Cx, a: [u32; N_ARGS]) {
        let Some(i) = pick_len(self.vecs.len(), a[0]) else { cx.ops_noop += 1; return };
        let v = self.vecs.remove(i);
        let l = v.as_slice().len();
        let li = self.target_len(l, a[1], a[2]);
        let n = LENS[li];
        let before = ids_of(v.as_slice(), 954);
        let is_box = matches!(v, VecObj::B(_));
        let r = with_len!(li; N => lib(move || match v {
            VecObj::V(v) => GenericArray::<E, N>::try_from(v).map(Arr::from),
            VecObj::B(b) => GenericArray::<E, N>::try_from(b).map(Arr::from),
        }));
        cx.cov(&[OpKind::VecToArr as u64, n as u64, ((l as i64 - n as i64).clamp(-2, 2) + 2) as u64, is_box as u64]);
        match r {
            Ok(Ok(arr)) => {
                if cx.checks.c15 && l != n {
                    fail("C15-wrong-length-accepted", format!("TryFrom<Vec/Box<[T]>> for GenericArray<_, {n}> accepted a source of length {l}"));
                }
                let after = with_arr!(&arr; x, N => { let _ = N::USIZE; ids_of(x.as_slice(), 955) });
                self.check_same_ids(cx, "Vec/Box<[T]> -> GenericArray", &before, &after);
                self.put_arr(cx, arr);
            }
            Ok(Err(_)) => {
                if cx.checks.c15 && l == n {
                    fail("C15-right-length-rejected", format!("TryFrom<Vec/Box<[T]>> for GenericArray<_, {n}> rejected a source of length {l}"));
                }
                cx.probe("heap conversion rejected for wrong length");
            }
            Err(p) => on_panic(cx, "TryFrom<Vec/Box<[T]>> for GenericArray", p),
        }
    }

    pub fn op_vec_to_bx(&mut self, cx: &mut Cx, a: [u32; N_ARGS]) {
        let Some(i) = pick_len(self.vecs.len(), a[0]) else { cx.ops_noop += 1; return };
        let v = self.vecs.remove(i);
        let l = v.as_slice().len();
        let li = self.target_len(l, a[1], a[2]);
        let n = LENS[li];
        let before = ids_of(v.as_slice(), 956);
        let (is_box, tight) = match &v {
            VecObj::B(_) => (true, true),
            VecObj::V(v) => (false, v.capacity() == v.len()),
        };
        let src_addr = v.as_slice().as_ptr() as usize;
        let block_nonzero = core::mem::size_of::<E>() != 0 && l != 0;
        let mut ev = (0u64, 0u64, 0u64);
        let r = with_len!(li; N => lib(|| {
            ev.0 = alloc::events();
            alloc::window_begin();
            let r = match v {
                VecObj::V(v) => GenericArray::<E, N>::try_from_vec(v).map(Bx::from),
                VecObj::B(b) => GenericArray::<E, N>::try_from_boxed_slice(b).map(Bx::from),
            };
            ev.1 = alloc::events();
            ev.2 = alloc::window_max_request();
            r
        }));
        let block_bytes = (l * core::mem::size_of::<E>()) as u64;
        cx.cov(&[OpKind::VecToBx as u64, n as u64, ((l as i64 - n as i64).clamp(-2, 2) + 2) as u64, is_box as u64, tight as u64]);
        match r {
            Ok(Ok(bx)) => {
                if cx.checks.c15 && l != n {
                    fail("C15-wrong-length-accepted", format!("try_from_vec/try_from_boxed_slice::<{n}> accepted a source of length {l}"));
                }
                let (after, dst_addr) = with_bx!(&bx; x, N => { let _ = N::USIZE; (ids_of(x.as_slice(), 957), x.as_slice().as_ptr() as usize) });
                self.check_same_ids(cx, "Vec/Box<[T]> -> Box<GenericArray>", &before, &after);
                if cx.checks.c15 && tight && l == n {
                    // "hands over the same heap block without copying": the result must live in the very
                    // block it was given (a copy would have to live somewhere else while the source block
                    // is still allocated); allocator traffic as such is not pinned down and not flagged
                    let _ = (ev, block_bytes);
                    if block_nonzero && dst_addr != src_addr {
                        fail("C15-not-o1", format!("try_from_{}::<{n}> returned a different block than it was given", if is_box { "boxed_slice" } else { "vec" }));
                    }
                    cx.probe("O(1) conversion checked for allocator silence");
                }
                self.put_bx(cx, bx);
            }
            Ok(Err(_)) => {
                if cx.checks.c15 && l == n {
                    fail("C15-right-length-rejected", format!("try_from_vec/try_from_boxed_slice::<{n}> rejected a source of length {l}"));
                }
                cx.probe("heap conversion rejected for wrong length");
            }
            Err(p) => on_panic(cx, "try_from_vec/try_from_boxed_slice", p),
        }
    }

    pub fn op_bx_to_vec(&mut self, cx: &mut Cx, a: [u32; N_ARGS]) {
        let Some(i) = pick_len(self.bxs.len(), a[0]) else { cx.ops_noop += 1; return };
        let b = self.bxs.remove(i);
        let n = b.len();
        let boxed = a[1] % 2 == 1;
        let (before, src_addr) = with_bx!(&b; x, N => { let _ = N::USIZE; (ids_of(x.as_slice(), 958), x.as_slice().as_ptr() as usize) });
        let block_nonzero = core::mem::size_of::<E>() != 0 && n != 0;
        let mut ev = (0u64, 0u64, 0u64);
        let block_bytes = (n * core::mem::size_of::<E>()) as u64;
        let r = with_bx!(b; x, N => { let _ = N::USIZE; lib(|| {
            ev.0 = alloc::events();
            alloc::window_begin();
            let r = if boxed { VecObj::B(GenericArray::into_boxed_slice(x)) } else { VecObj::V(GenericArray::into_vec(x)) };
            ev.1 = alloc::events();
            ev.2 = alloc::window_max_request();
            r
        }) });
        cx.cov(&[OpKind::BxToVec as u64, n as u64, boxed as u64]);
        match r {
            Ok(v) => {
                let after = ids_of(v.as_slice(), 959);
                self.check_same_ids(cx, "Box<GenericArray> -> Vec/Box<[T]>", &before, &after);
                if cx.checks.c15 {
                    let _ = (ev, block_bytes);
                    if block_nonzero && v.as_slice().as_ptr() as usize != src_addr {
                        fail("C15-not-o1", format!("{}::<{n}> returned a different block than it was given", if boxed { "into_boxed_slice" } else { "into_vec" }));
                    }
                    cx.probe("O(1) conversion checked for allocator silence");
                }
                self.put_vec(cx, v);
            }
            Err(p) => on_panic(cx, "into_vec/into_boxed_slice", p),
        }
    }

    pub fn op_boxed_generate(&mut self, cx: &mut Cx, a: [u32; N_ARGS]) {
        let li = lens_idx(a[0]);
        let n = LENS[li];
        let mut cb = Cb::<E>::new(0);
        let mut idxs: Vec<usize> = infra(Vec::new);
        let r = with_len!(li; N => {
            let f = |i: usize| {
                let _g = enter(Ctx::Work);
                ledger::tick(Seam::Closure);
                infra(|| idxs.push(i));
                cb.calls += 1;
                let e = E::make();
                cb.out(e)
            };
            lib(|| Bx::from(<Box<GenericArray<E, N>> as GenericSequence<E>>::generate(f)))
        });
        let want: Vec<usize> = infra(|| (0..n).collect());
        if n == 0 {
            cx.probe("zero-length boxed generate");
        }
        cx.cov(&[OpKind::BoxedGenerate as u64, n as u64, r.is_err() as u64, if r.is_err() { idxs.len() as u64 } else { 0 }]);
        match r {
            Ok(bx) => {
                if cx.checks.c08 {
                    if idxs != want {
                        fail("C08-generate-calls", format!("boxed generate::<{n}> called its function with {idxs:?}, expected 0..{n} in ascending order"));
                    }
                    let got = with_bx!(&bx; x, N => { let _ = N::USIZE; ids_of(x.as_slice(), 960) });
                    if E::HAS_ID && got != cb.outs {
                        fail("C08-generate-result", format!("boxed generate::<{n}>: result holds {got:?} but call i returned {:?}", cb.outs));
                    }
                }
                self.put_bx(cx, bx);
            }
            Err(p) => {
                if cx.checks.c08 && !(idxs.len() <= n && idxs[..] == want[..idxs.len()]) {
                    fail("C08-generate-calls", format!("boxed generate::<{n}> called its function with {idxs:?} before the panic"));
                }
                on_panic(cx, "boxed generate", p)
            }
        }
    }

    pub fn op_default_boxed(&mut self, cx: &mut Cx, a: [u32; N_ARGS]) {
        let li = lens_idx(a[0]);
        let n = LENS[li];
        ledger::with(|s| s.clones.clear());
        let r = with_len!(li; N => lib(|| Bx::from(GenericArray::<E, N>::default_boxed())));
        let calls = ledger::seam_count(Seam::Default) as usize;
        cx.cov(&[OpKind::DefaultBoxed as u64, n as u64, r.is_err() as u64, if r.is_err() { calls as u64 } else { 0 }]);
        match r {
            Ok(bx) => {
                if cx.checks.c08 && calls != n {
                    fail("C08-default-calls", format!("default_boxed for length {n} called the element's default {calls} times"));
                }
                if cx.checks.c08 && E::HAS_ID {
                    let made: Vec<u32> = ledger::with(|s| s.clones.iter().filter(|c| c.0 == u32::MAX).map(|c| c.1).collect());
                    let got = with_bx!(&bx; x, N => { let _ = N::USIZE; ids_of(x.as_slice(), 930) });
                    if got != made {
                        fail("C08-default-order", format!("default_boxed for length {n}: calls produced {made:?} in that order, the array holds {got:?}"));
                    }
                }
                self.put_bx(cx, bx);
            }
            Err(p) => on_panic(cx, "default_boxed", p),
        }
    }

    pub fn op_bx_clone(&mut self, cx: &mut Cx, a: [u32; N_ARGS]) {
        let Some(i) = pick_len(self.bxs.len(), a[0]) else { cx.ops_noop += 1; return };
        let n = self.bxs[i].len();
        let r = with_bx!(&self.bxs[i]; x, N => { let _ = N::USIZE; lib(|| Bx::from(x.clone())) });
        cx.cov(&[OpKind::BxClone as u64, n as u64, r.is_err() as u64]);
        match r {
            Ok(bx) => self.put_bx(cx, bx),
            Err(p) => on_panic(cx, "Box<GenericArray>::clone", p),
        }
    }

    pub fn op_bx_into_iter(&mut self, cx: &mut Cx, a: [u32; N_ARGS]) {
        let Some(i) = pick_len(self.bxs.len(), a[0]) else { cx.ops_noop += 1; return };
        let b = self.bxs.remove(i);
        let n = b.len();
        let before = with_bx!(&b; x, N => { let _ = N::USIZE; ids_of(x.as_slice(), 961) });
        let r = with_bx!(b; x, N => { let _ = N::USIZE; lib(move || x.into_iter()) });
        cx.cov(&[OpKind::BxIntoIter as u64, n as u64]);
        match r {
            Ok(it) => {
                let after = ids_of(it.as_slice(), 962);
                self.check_same_ids(cx, "Box<GenericArray>::into_iter", &before, &after);
                self.put_vit(cx, it)
            }
            Err(p) => on_panic(cx, "Box<GenericArray>::into_iter", p),
        }
    }

    pub fn op_vit_next(&mut self, cx: &mut Cx, a: [u32; N_ARGS]) {
        let Some(i) = pick_len(self.vits.len(), a[0]) else { cx.ops_noop += 1; return };
        let back = a[1] % 2 == 1;
        let it = &mut self.vits[i];
        let r = lib(|| if back { it.next_back() } else { it.next() });
        match r {
            Ok(Some(e)) => self.hand_back(cx, e, a[2]),
            Ok(None) => {}
            Err(p) => on_panic(cx, "vec::IntoIter::next", p),
        }
    }

    pub fn op_box_arr_macro(&mut self, cx: &mut Cx, a: [u32; N_ARGS]) {
        use generic_array::typenum::{U4, U7};
        let which = a[0] % 8;
        let mk = || {
            let _g = enter(Ctx::Work);
            E::make()
        };
        if which >= 6 {
            // the `[x; <usize expr>]` form with a plain Copy value (the form's own contract asks for no more)
            let r = lib(|| {
                if which == 6 {
                    let b = box_arr![7u32; 6];
                    let _g = enter(Ctx::Infra);
                    b.to_vec()
                } else {
                    let b = box_arr![9u32; 1];
                    let _g = enter(Ctx::Infra);
                    b.to_vec()
                }
            });
            cx.cov(&[OpKind::BoxArrMacro as u64, which as u64, r.is_err() as u64]);
            match r {
                Ok(v) => {
                    let want: Vec<u32> = if which == 6 { vec![7; 6] } else { vec![9; 1] };
                    if cx.checks.c15 && v != want {
                        fail("C15-contents", format!("box_arr![x; n] form {which} built {v:?}"));
                    }
                }
                Err(p) => on_panic(cx, "box_arr!", p),
            }
            return;
        }
        let r = lib(|| match which {
            0 => {
                let b: Box<GenericArray<E, generic_array::typenum::U0>> = box_arr![];
                Bx::from(b)
            }
            1 => Bx::from(box_arr![mk()]),
            2 => Bx::from(box_arr![mk(), mk(), mk()]),
            3 => Bx::from(box_arr![mk(), mk(), mk(), mk(), mk(),]),
            4 => Bx::from(box_arr![mk(); U4]),
            _ => Bx::from(box_arr![mk(); U7]),
        });
        cx.cov(&[OpKind::BoxArrMacro as u64, which as u64, r.is_err() as u64]);
        match r {
            Ok(bx) => {
                let want = [0, 1, 3, 5, 4, 7][which as usize];
                if cx.checks.c15 && bx.len() != want {
                    fail("C15-contents", format!("box_arr! form {which} built length {} instead of {want}", bx.len()));
                }
                self.put_bx(cx, bx)
            }
            Err(p) => on_panic(cx, "box_arr!", p),
        }
    }

}
