//! generated split of the executors: one module per group so that each group gets its own codegen unit
#![allow(unused_imports)]
use crate::alloc::{self, enter, Ctx};
use crate::elem::Elem;
use crate::gen::*;
use crate::ledger::{self, Seam};
use crate::ops::*;
use crate::world::*;
use generic_array::functional::FunctionalSequence;
use generic_array::sequence::*;
use generic_array::typenum::Unsigned;
use generic_array::GenericArray;
#[allow(unused_imports)]
use std::collections::VecDeque;

#[allow(dead_code)]
fn infra<R>(f: impl FnOnce() -> R) -> R {
    let _g = enter(Ctx::Infra);
    f()
}
use crate::exec::{is_prefix, pick_len};

ops_group!(GNew);

impl<'a, E: Elem> GNew<'a, E> {
    pub fn op_generate(&mut self, cx: &mut Cx, a: [u32; N_ARGS]) {
        let li = lens_idx(a[0]);
        let form = a[1] % 3;
        let n = LENS[li];
        let mut cb = Cb::<E>::new(0);
        let mut idxs: Vec<usize> = infra(Vec::new);
        let r = with_len!(li; N => {
            let f = |i: usize| {
                let _g = enter(Ctx::Work);
                ledger::tick(Seam::Closure);
                infra(|| idxs.push(i));
                cb.calls += 1;
                let e = E::make();
                cb.out(e)
            };
            lib(|| match form {
                0 => Arr::from(<GenericArray<E, N> as GenericSequence<E>>::generate(f)),
                1 => Arr::from(<&GenericArray<E, N> as GenericSequence<E>>::generate(f)),
                _ => Arr::from(<&mut GenericArray<E, N> as GenericSequence<E>>::generate(f)),
            })
        });
        let want: Vec<usize> = infra(|| (0..n).collect());
        match r {
            Ok(arr) => {
                if cx.checks.c08 {
                    if idxs != want {
                        fail("C08-generate-calls", format!("generate::<{n}> called its function with {idxs:?}, expected 0..{n} in ascending order"));
                    }
                    let got = with_arr!(&arr; x, N => { let _ = N::USIZE; ids_of(x.as_slice(), 930) });
                    if E::HAS_ID && got != cb.outs {
                        fail("C08-generate-result", format!("generate::<{n}>: result holds {got:?} but call i returned {:?}", cb.outs));
                    }
                }
                cx.cov(&[OpKind::Generate as u64, n as u64, form as u64, 0]);
                self.put_arr(cx, arr);
            }
            Err(p) => {
                if cx.checks.c08 && !(idxs.len() <= n && idxs[..] == want[..idxs.len()]) {
                    fail("C08-generate-calls", format!("generate::<{n}> called its function with {idxs:?} before the panic, expected a prefix of 0..{n}"));
                }
                cx.cov(&[OpKind::Generate as u64, n as u64, form as u64, 1, idxs.len() as u64]);
                on_panic(cx, "generate", p);
            }
        }
    }

    pub fn op_default(&mut self, cx: &mut Cx, a: [u32; N_ARGS]) {
        let li = lens_idx(a[0]);
        let n = LENS[li];
        ledger::with(|s| s.clones.clear());
        let r = with_len!(li; N => lib(|| Arr::from(GenericArray::<E, N>::default())));
        let calls = ledger::seam_count(Seam::Default) as usize;
        match r {
            Ok(arr) => {
                if cx.checks.c08 && calls != n {
                    fail("C08-default-calls", format!("Default for length {n} called the element's default {calls} times"));
                }
                if cx.checks.c08 && E::HAS_ID {
                    // element i is the result of the i-th call
                    let made: Vec<u32> = ledger::with(|s| s.clones.iter().filter(|c| c.0 == u32::MAX).map(|c| c.1).collect());
                    let got = with_arr!(&arr; x, N => { let _ = N::USIZE; ids_of(x.as_slice(), 930) });
                    if got != made {
                        fail("C08-default-order", format!("Default for length {n}: calls produced {made:?} in that order, the array holds {got:?}"));
                    }
                }
                cx.cov(&[OpKind::DefaultArr as u64, n as u64, 0]);
                self.put_arr(cx, arr);
            }
            Err(p) => {
                cx.cov(&[OpKind::DefaultArr as u64, n as u64, 1, calls as u64]);
                on_panic(cx, "default", p)
            }
        }
    }

    pub fn op_clone(&mut self, cx: &mut Cx, a: [u32; N_ARGS]) {
        let Some(i) = pick_len(self.arrs.len(), a[0]) else { return self.noop(cx) };
        let src = &self.arrs[i];
        let n = src.len();
        let pre = with_arr!(src; x, N => { let _ = N::USIZE; ids_of(x.as_slice(), 931) });
        ledger::with(|s| s.clones.clear());
        let r = with_arr!(src; x, N => { let _ = N::USIZE; lib(|| Arr::from(x.clone())) });
        let clones = ledger::with(|s| s.clones.clone());
        let srcs: Vec<u32> = infra(|| clones.iter().map(|c| c.0).collect());
        let news: Vec<u32> = infra(|| clones.iter().map(|c| c.1).collect());
        match r {
            Ok(arr) => {
                if cx.checks.c08 && E::HAS_ID {
                    if srcs != pre {
                        fail("C08-clone-calls", format!("clone of {pre:?} cloned elements {srcs:?} (expected each index once, ascending)"));
                    }
                    let got = with_arr!(&arr; x, N => { let _ = N::USIZE; ids_of(x.as_slice(), 932) });
                    if got != news {
                        fail("C08-clone-result", format!("clone result holds {got:?} but the clones made were {news:?}"));
                    }
                } else if cx.checks.c08 && ledger::seam_count(Seam::Clone) as usize != n {
                    fail("C08-clone-calls", format!("clone of a length-{n} array called Clone {} times", ledger::seam_count(Seam::Clone)));
                }
                cx.cov(&[OpKind::CloneArr as u64, n as u64, 0]);
                self.put_arr(cx, arr);
            }
            Err(p) => {
                if cx.checks.c08 && E::HAS_ID && !is_prefix(&srcs, &pre) {
                    fail("C08-clone-calls", format!("clone of {pre:?} cloned elements {srcs:?} before the panic (expected a prefix)"));
                }
                cx.cov(&[OpKind::CloneArr as u64, n as u64, 1, srcs.len() as u64]);
                on_panic(cx, "clone", p)
            }
        }
    }

    pub fn op_native(&mut self, cx: &mut Cx, a: [u32; N_ARGS]) {
        let Some(i) = pick_len(self.arrs.len(), a[0]) else { return self.noop(cx) };
        let arr = self.arrs.remove(i);
        let n = arr.len();
        let r = with_arr_const!(arr; x, N, C => lib(move || {
            let native: [E; C] = x.into_array();
            let back: GenericArray<E, N> = GenericArray::from_array(native);
            Arr::from(back)
        }); other => Ok(other));
        match r {
            Ok(arr) => {
                cx.cov(&[OpKind::NativeRoundtrip as u64, n as u64]);
                self.put_arr(cx, arr)
            }
            Err(p) => on_panic(cx, "into_array/from_array", p),
        }
    }

    pub fn op_tuple(&mut self, cx: &mut Cx, a: [u32; N_ARGS]) {
        let Some(i) = pick_len(self.arrs.len(), a[0]) else { return self.noop(cx) };
        if !has_tuple(self.arrs[i].len()) {
            return self.noop(cx);
        }
        let arr = self.arrs.remove(i);
        let n = arr.len();
        let r = lib(move || tuple_roundtrip!(arr, E; o => o));
        match r {
            Ok(arr) => {
                cx.cov(&[OpKind::TupleRoundtrip as u64, n as u64]);
                self.put_arr(cx, arr)
            }
            Err(p) => on_panic(cx, "tuple conversion", p),
        }
    }

    /// `dst.clone_from(&src)` on two arrays of the same length
    pub fn op_clone_from(&mut self, cx: &mut Cx, a: [u32; N_ARGS]) {
        let Some(i) = pick_len(self.arrs.len(), a[0]) else { return self.noop(cx) };
        let n = self.arrs[i].len();
        let partners: Vec<usize> = infra(|| (0..self.arrs.len()).filter(|&j| j != i && self.arrs[j].len() == n).collect());
        let Some(pj) = pick_len(partners.len(), a[1]) else { return self.noop(cx) };
        let j = partners[pj];
        let mut dst = self.arrs.remove(i);
        let j = if j > i { j - 1 } else { j };
        let src = &self.arrs[j];
        let pre = with_arr!(src; x, N => { let _ = N::USIZE; ids_of(x.as_slice(), 931) });
        ledger::with(|s| s.clones.clear());
        let r = with_arr_pair!((&mut dst, src); d, s0, N => { let _ = N::USIZE; lib(|| d.clone_from(s0)) }; _o => unreachable!());
        let clones = ledger::with(|s| s.clones.clone());
        let srcs: Vec<u32> = infra(|| clones.iter().map(|c| c.0).collect());
        let news: Vec<u32> = infra(|| clones.iter().map(|c| c.1).collect());
        cx.cov(&[OpKind::CloneFromArr as u64, n as u64, r.is_err() as u64]);
        match r {
            Ok(()) => {
                if cx.checks.c08 && E::HAS_ID {
                    let got = with_arr!(&dst; x, N => { let _ = N::USIZE; ids_of(x.as_slice(), 932) });
                    // clone_from is not named by the statement's call-order clause: only what the
                    // destination ends up holding is compared (element i is a clone of source element i)
                    let origin: Vec<u32> = infra(|| got.iter().map(|g| {
                        let mut cur = *g;
                        for _ in 0..8 {
                            match clones.iter().rev().find(|c| c.1 == cur) { Some(c) => { cur = c.0; if pre.contains(&cur) { return cur; } } None => break }
                        }
                        0
                    }).collect());
                    let _ = (&srcs, &news);
                    if origin != pre {
                        fail("C08-result", format!("clone_from of {pre:?}: the destination holds clones of {origin:?}"));
                    }
                }
            }
            Err(p) => on_panic(cx, "clone_from", p),
        }
        self.put_arr(cx, dst);
    }

}
