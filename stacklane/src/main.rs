//! Small-stack lane of the C15 check: each case builds a boxed array on a thread with a 256 KiB
//! stack and verifies its contents. One function per case, never inlined: a frame must not reserve
//! room for another case's locals. Exit 0 = completed with correct contents; death by signal =
//! the construction needed the stack.
use generic_array::sequence::GenericSequence;
use generic_array::typenum::{U1048576, U262144};
use generic_array::{box_arr, GenericArray};

pub const SMALL_STACK: usize = 256 * 1024;

type BigN = U1048576;
type BigM = U262144;

// one function per case, never inlined: a frame must not reserve space for another case's locals
#[inline(never)]
fn big_default_boxed_u32() -> bool {
    let b = GenericArray::<u32, BigN>::default_boxed();
    b.len() == 1 << 20 && b.iter().all(|&x| x == 0)
}
#[inline(never)]
fn big_boxed_generate_u32() -> bool {
    let b = Box::<GenericArray<u32, BigN>>::generate(|i| i as u32 ^ 0x55);
    b.iter().enumerate().all(|(i, &x)| x == i as u32 ^ 0x55)
}
#[inline(never)]
fn big_box_arr_repeat_u32() -> bool {
    let b = box_arr![7u32; BigN];
    b.len() == 1 << 20 && b.iter().all(|&x| x == 7)
}
#[inline(never)]
fn big_boxed_from_iter_u32() -> bool {
    let b: Box<GenericArray<u32, BigN>> = (0..1u32 << 20).collect();
    b.iter().enumerate().all(|(i, &x)| x == i as u32)
}
#[inline(never)]
fn big_try_boxed_from_iter_u32() -> bool {
    let b = GenericArray::<u32, BigN>::try_boxed_from_iter((0..1u32 << 20).map(|x| x.wrapping_mul(3))).unwrap();
    b.iter().enumerate().all(|(i, &x)| x == (i as u32).wrapping_mul(3))
}
#[inline(never)]
fn big_boxed_generate_u8x16() -> bool {
    let b = Box::<GenericArray<[u8; 16], BigM>>::generate(|i| [i as u8; 16]);
    b.iter().enumerate().all(|(i, x)| *x == [i as u8; 16])
}
#[inline(never)]
fn big_default_boxed_u8x16() -> bool {
    let b = GenericArray::<[u8; 16], BigM>::default_boxed();
    b.len() == 1 << 18 && b.iter().all(|x| *x == [0u8; 16])
}
#[inline(never)]
fn big_boxed_collect_u8x16() -> bool {
    let b: Box<GenericArray<[u8; 16], BigM>> = (0..1usize << 18).map(|i| [(i >> 3) as u8; 16]).collect();
    b.iter().enumerate().all(|(i, x)| *x == [(i >> 3) as u8; 16])
}
#[inline(never)]
fn big_boxed_from_iter_loose_hint() -> bool {
    // filter: size_hint (0, Some(n)) — truthful but loose
    let b: Box<GenericArray<u32, BigN>> = (0..1u32 << 20).filter(|x| std::hint::black_box(*x) < u32::MAX).collect();
    b.iter().enumerate().all(|(i, &x)| x == i as u32)
}
#[inline(never)]
fn big_try_boxed_from_iter_absent_hint() -> bool {
    // from_fn: size_hint (0, None)
    let mut k = 0u32;
    let src = std::iter::from_fn(move || {
        if k < 1 << 20 {
            k += 1;
            Some(k - 1)
        } else {
            None
        }
    });
    let b = GenericArray::<u32, BigN>::try_boxed_from_iter(src).unwrap();
    b.iter().enumerate().all(|(i, &x)| x == i as u32)
}
#[inline(never)]
fn big_boxed_map() -> bool {
    use generic_array::functional::FunctionalSequence;
    let b = GenericArray::<u32, BigN>::default_boxed();
    let c: Box<GenericArray<u32, BigN>> = b.map(|x| x + 5);
    c.iter().all(|&x| x == 5)
}
#[inline(never)]
fn big_boxed_zip() -> bool {
    use generic_array::functional::FunctionalSequence;
    let a = Box::<GenericArray<u32, BigN>>::generate(|i| i as u32);
    let b = GenericArray::<u32, BigN>::default_boxed();
    let c: Box<GenericArray<u32, BigN>> = a.zip(b, |x, y| x + y + 1);
    c.iter().enumerate().all(|(i, &x)| x == i as u32 + 1)
}
#[inline(never)]
fn big_try_from_vec() -> bool {
    let v: Vec<u32> = (0..1u32 << 20).collect();
    let b = GenericArray::<u32, BigN>::try_from_vec(v).unwrap();
    b.iter().enumerate().all(|(i, &x)| x == i as u32)
}
#[inline(never)]
fn big_boxed_into_iter_roundtrip() -> bool {
    let b = Box::<GenericArray<u32, BigN>>::generate(|i| i as u32);
    let v = b.into_vec();
    let b2 = GenericArray::<u32, BigN>::try_from_boxed_slice(v.into_boxed_slice()).unwrap();
    let c: Box<GenericArray<u32, BigN>> = b2.into_iter().rev().collect();
    c.iter().enumerate().all(|(i, &x)| x == (1u32 << 20) - 1 - i as u32)
}
#[inline(never)]
fn big_box_arr_repeat_expr() -> bool {
    let b = box_arr![7u64; 1048576];
    b.len() == 1 << 20 && b.iter().all(|&x| x == 7)
}
#[inline(never)]
fn big_box_arr_repeat_u8x16() -> bool {
    let b = box_arr![[3u8; 16]; BigM];
    b.len() == 1 << 18 && b.iter().all(|x| *x == [3u8; 16])
}
// few, large elements: the array (256 KiB) is as large as the whole stack: only code that needs as much stack as the array itself dies, each element (16 KiB) is a sixteenth of it
struct Blob([u8; 16384]);
impl Default for Blob {
    #[inline(always)]
    fn default() -> Blob {
        Blob([0; 16384])
    }
}
#[inline(never)]
fn big_default_boxed_big_elements() -> bool {
    use generic_array::typenum::U16;
    let b = GenericArray::<Blob, U16>::default_boxed();
    b.len() == 16 && b.iter().all(|x| x.0.iter().all(|&y| y == 0))
}
#[inline(never)]
fn big_boxed_generate_big_elements() -> bool {
    use generic_array::typenum::U16;
    let b = Box::<GenericArray<[u8; 16384], U16>>::generate(|i| [i as u8; 16384]);
    b.iter().enumerate().all(|(i, x)| x[0] == i as u8 && x[16383] == i as u8)
}
#[inline(never)]
fn big_boxed_from_iter_big_elements() -> bool {
    use generic_array::typenum::U16;
    let b: Box<GenericArray<[u8; 16384], U16>> = (0..16u8).map(|i| [i; 16384]).collect();
    b.iter().enumerate().all(|(i, x)| x[0] == i as u8 && x[16383] == i as u8)
}
// elements with drop glue (a code path may be selected on needs_drop)
#[derive(Clone, Default)]
struct Dg(u32);
impl Drop for Dg {
    #[inline(never)]
    fn drop(&mut self) {
        std::hint::black_box(&self.0);
    }
}
#[inline(never)]
fn big_boxed_generate_dropglue() -> bool {
    let b = Box::<GenericArray<Dg, BigN>>::generate(|i| Dg(i as u32));
    b.iter().enumerate().all(|(i, x)| x.0 == i as u32)
}
#[inline(never)]
fn big_default_boxed_dropglue() -> bool {
    let b = GenericArray::<Dg, BigN>::default_boxed();
    b.len() == 1 << 20 && b.iter().all(|x| x.0 == 0)
}
#[inline(never)]
fn big_boxed_from_iter_dropglue() -> bool {
    let b: Box<GenericArray<Dg, BigN>> = (0..1u32 << 20).map(Dg).collect();
    b.iter().enumerate().all(|(i, x)| x.0 == i as u32)
}
#[inline(never)]
fn big_box_arr_repeat_dropglue() -> bool {
    let b = box_arr![Dg(9); BigN];
    b.len() == 1 << 20 && b.iter().all(|x| x.0 == 9)
}
#[inline(never)]
fn big_boxed_map_dropglue() -> bool {
    use generic_array::functional::FunctionalSequence;
    let b = Box::<GenericArray<Dg, BigN>>::generate(|i| Dg(i as u32));
    let c: Box<GenericArray<Dg, BigN>> = b.map(|x| Dg(x.0 + 1));
    c.iter().enumerate().all(|(i, x)| x.0 == i as u32 + 1)
}
#[inline(never)]
fn big_probe_stack_default_u32() -> bool {
    let a = std::hint::black_box(GenericArray::<u32, BigN>::default());
    a.iter().all(|&x| x == 0)
}

/// child side: `gasim bigstack <case>`
pub fn bigstack_child(case: &str) -> i32 {
    let f: fn() -> bool = match case {
        "default_boxed_u32_4MiB" => big_default_boxed_u32,
        "boxed_generate_u32_4MiB" => big_boxed_generate_u32,
        "box_arr_repeat_u32_4MiB" => big_box_arr_repeat_u32,
        "boxed_from_iter_u32_4MiB" => big_boxed_from_iter_u32,
        "try_boxed_from_iter_u32_4MiB" => big_try_boxed_from_iter_u32,
        "boxed_generate_u8x16_4MiB" => big_boxed_generate_u8x16,
        "default_boxed_u8x16_4MiB" => big_default_boxed_u8x16,
        "boxed_collect_u8x16_4MiB" => big_boxed_collect_u8x16,
        "boxed_from_iter_loose_hint_u32_4MiB" => big_boxed_from_iter_loose_hint,
        "try_boxed_from_iter_absent_hint_u32_4MiB" => big_try_boxed_from_iter_absent_hint,
        "boxed_map_u32_4MiB" => big_boxed_map,
        "boxed_zip_u32_4MiB" => big_boxed_zip,
        "try_from_vec_u32_4MiB" => big_try_from_vec,
        "boxed_into_iter_roundtrip_u32_4MiB" => big_boxed_into_iter_roundtrip,
        "box_arr_repeat_expr_u64_8MiB" => big_box_arr_repeat_expr,
        "box_arr_repeat_u8x16_4MiB" => big_box_arr_repeat_u8x16,
        "boxed_generate_dropglue_4MiB" => big_boxed_generate_dropglue,
        "default_boxed_dropglue_4MiB" => big_default_boxed_dropglue,
        "boxed_from_iter_dropglue_4MiB" => big_boxed_from_iter_dropglue,
        "box_arr_repeat_dropglue_4MiB" => big_box_arr_repeat_dropglue,
        "boxed_map_dropglue_4MiB" => big_boxed_map_dropglue,
        "default_boxed_16_x_16KiB_elements" => big_default_boxed_big_elements,
        "boxed_generate_16_x_16KiB_elements" => big_boxed_generate_big_elements,
        "boxed_from_iter_16_x_16KiB_elements" => big_boxed_from_iter_big_elements,
        "probe_stack_default_u32_4MiB" => big_probe_stack_default_u32,
        _ => return 2,
    };
    let h = std::thread::Builder::new().stack_size(SMALL_STACK).spawn(move || f()).unwrap();
    match h.join() {
        Ok(true) => 0,
        Ok(false) => {
            println!("WRONG-CONTENTS");
            3
        }
        Err(_) => 4,
    }
}


fn main() {
    let case = std::env::args().nth(1).unwrap_or_default();
    std::process::exit(bigstack_child(&case));
}
